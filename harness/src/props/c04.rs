//! C04 — conversion yields exactly the requested unit and the same quantity.

use super::pairs::*;
use crate::engine::*;
use crate::gen_util::*;
use crate::refmodel::units::*;
use crate::session::*;
use crate::PropDef;
use numbat::verif_hooks::{VQuantity, VValue};
use proptest::prelude::*;
use serde::{Deserialize, Serialize};
use serde_json::{Value as J, json};

pub fn def() -> PropDef {
    PropDef {
        id: "C04",
        run,
        replay,
    }
}

#[derive(Clone, Debug, Serialize, Deserialize)]
struct Case {
    /// source quantity, e.g. `12.5 km/h`
    q_src: String,
    /// unit of q on its own (for the way back), e.g. `km/h`
    q_unit: String,
    /// target unit expression U
    target: String,
    /// optional magnitude k != 1 on the right-hand side (`q -> k U`)
    k: Option<f64>,
    /// optional intermediate unit expression V of the same dimension
    via: Option<String>,
    kind: String,
    shared_factor: bool,
}

fn raw_q(ctx: &numbat::Context, name: &str) -> Result<VQuantity, Failure> {
    match ctx.verif_raw_global(name) {
        Some(VValue::Quantity(q)) => Ok(q),
        other => Err(Failure::new("harness", format!("{name} is not a quantity: {other:?}"))),
    }
}

fn split_number_unit(text: &str) -> Option<(f64, String)> {
    split_displayed_quantity(text)
}

fn check(c: &Case, st: &mut Stats) -> CheckResult {
    st.eval();
    let cat = prelude_catalogue();
    let mut ctx = prelude();
    let rhs = match c.k {
        Some(k) => format!("{} * {}", lit(k), c.target),
        None => c.target.clone(),
    };
    let mut code = format!(
        "let xx_q = {}\nlet xx_t = {}\nlet xx_c = xx_q -> {}\nlet xx_r = xx_c -> {}\n",
        c.q_src, c.target, rhs, c.q_unit
    );
    if let Some(v) = &c.via {
        code.push_str(&format!("let xx_i = xx_q -> {v}\nlet xx_v = xx_i -> {}\n", c.target));
    }
    let o = eval(&mut ctx, &code);
    if let Some((loc, msg)) = &o.panic {
        return Err(Failure::new(format!("panic:{loc}"), format!("{code}: panic {msg}")));
    }
    if !o.ok() {
        return Err(Failure::new(
            "conversion-input-fails",
            format!("same-dimension conversion failed: {} for\n{code}", o.summary()),
        ));
    }
    let (q, t, cv, r) = (
        raw_q(&ctx, "xx_q")?,
        raw_q(&ctx, "xx_t")?,
        raw_q(&ctx, "xx_c")?,
        raw_q(&ctx, "xx_r")?,
    );
    let desc = format!("q = {}, target = {}", c.q_src, rhs);
    // 1. exactly the requested unit
    if cv.factors != t.factors {
        return Err(Failure::new(
            "not-the-requested-unit",
            format!("`q -> U` has unit `{}` but U is `{}`; {desc}", cv.unit_display, t.unit_display),
        ));
    }
    // 2. same physical quantity
    let ph = |q: &VQuantity| cat.physical(q).ok_or_else(|| Failure::new("harness", "unknown unit"));
    let (pq, pc) = (ph(&q)?, ph(&cv)?);
    // A converted value outside the normal f64 range (subnormal: only a few significant bits;
    // overflow) cannot be "the same within floating-point tolerance": such cases are
    // generated, counted and left out (the extreme-unit overflow class is recorded under C05).
    let outside = |x: f64| x != 0.0 && !(1e-290..=1e290).contains(&x.abs());
    let (_, target_factor) = cat.unit_of_factors(&t.factors).unwrap();
    let expected_log10 = pq.mag.abs().log10() - target_factor.abs().log10();
    let expected_outside = q.value != 0.0 && !(expected_log10.abs() < 290.0);
    if expected_outside || outside(cv.value) || outside(q.value) || outside(pq.mag) || outside(r.value) {
        st.excluded("value-outside-normal-f64-range");
        return Ok(());
    }
    if pq.vec != pc.vec || !rel_close(pq.mag, pc.mag, 1e-9) {
        return Err(Failure::new(
            "conversion-changes-quantity",
            format!("q is {} but `q -> U` is {} in base units; {desc}", pq.mag, pc.mag),
        ));
    }
    // 3. way back
    if r.factors != q.factors {
        return Err(Failure::new("roundtrip", format!("converting back gives unit `{}` instead of `{}`; {desc}", r.unit_display, q.unit_display)));
    }
    if q.value == 0.0 {
        if r.value != 0.0 {
            return Err(Failure::new("roundtrip", format!("0 converted there and back is {}; {desc}", r.value)));
        }
    } else if !rel_close(r.value, q.value, 1e-9) {
        return Err(Failure::new(
            "roundtrip",
            format!("converting back gives {} instead of {}; {desc}", r.value, q.value),
        ));
    }
    let (_, unit_factor) = cat.unit_of_factors(&t.factors).unwrap();
    // 4. via an intermediate unit
    if c.via.is_some() {
        let v = raw_q(&ctx, "xx_v")?;
        let xi = raw_q(&ctx, "xx_i")?.value;
        if outside(xi) || (xi == 0.0 && q.value != 0.0) {
            st.excluded("value-outside-normal-f64-range");
            return Ok(());
        }
        let want = pq.mag / unit_factor;
        if v.factors != t.factors || !rel_close(v.value, want, 1e-9) {
            return Err(Failure::new(
                "via-intermediate-disagrees",
                format!("(q -> {}) -> U gives {} {}, expected {} {}; {desc}", c.via.as_ref().unwrap(), v.value, v.unit_display, want, t.unit_display),
            ));
        }
        st.label("via-intermediate");
    }
    // 5. display
    let shown = eval(&mut ctx, &format!("xx_q -> {rhs}"));
    let Some(text) = shown.result_text.clone() else {
        return Err(Failure::new("conversion-input-fails", format!("no result for `xx_q -> {rhs}`: {}", shown.summary())));
    };
    match c.k {
        None => {
            let Some((n, unit)) = split_number_unit(&text) else {
                return Err(Failure::new("display-unparseable", format!("cannot read displayed result `{text}`; {desc}")));
            };
            if unit != t.unit_display {
                return Err(Failure::new(
                    "displayed-unit-is-not-requested-unit",
                    format!("`q -> U` is displayed as `{text}`, U is displayed as `{}`; {desc}", t.unit_display),
                ));
            }
            if !rel_close(n * unit_factor, pq.mag, 1e-5) && !(pq.mag == 0.0 && n == 0.0) {
                return Err(Failure::new(
                    "displayed-value-wrong",
                    format!("`q -> U` is displayed as `{text}` which is {} in base units, q is {}; {desc}", n * unit_factor, pq.mag),
                ));
            }
        }
        Some(k) => {
            // n × k U
            let Some((n_text, rest)) = text.split_once(" × ") else {
                return Err(Failure::new(
                    "multiple-of-target-not-displayed",
                    format!("`q -> k U` is displayed as `{text}`, expected the form `n × k U`; {desc}"),
                ));
            };
            let (Some(n), Some((k_shown, unit))) = (parse_displayed_number(n_text), split_number_unit(rest)) else {
                return Err(Failure::new("display-unparseable", format!("cannot read `{text}`; {desc}")));
            };
            if unit != t.unit_display || !rel_close(k_shown, k, 1e-5) {
                return Err(Failure::new(
                    "displayed-unit-is-not-requested-unit",
                    format!("`q -> k U` is displayed as `{text}`, expected a multiple of `{} {}`; {desc}", k, t.unit_display),
                ));
            }
            if !rel_close(n * k_shown * unit_factor, pq.mag, 2e-5) && !(pq.mag == 0.0 && n == 0.0) {
                return Err(Failure::new(
                    "displayed-value-wrong",
                    format!("`{text}` is {} in base units, q is {}; {desc}", n * k_shown * unit_factor, pq.mag),
                ));
            }
            st.label("target-with-magnitude");
        }
    }
    // 5b. the displayed text, read back as an input, is a quantity in the factors of U (the
    // comparison above uses numbat's own unit formatter on both sides; this one does not). A
    // display that does not parse is C13/C14's business and only counted here.
    // Units displayed through a symbol alias (″, ′, °, %) do not read back as identifiers — that
    // is the recorded C13 finding (`R″` is read as R × ″) and not this property's business.
    let symbol_in_display = t
        .unit_display
        .chars()
        .any(|c| !(c.is_alphanumeric() || "_·/()^ ⁻⁰¹²³⁴⁵⁶⁷⁸⁹-".contains(c)));
    if symbol_in_display {
        st.label("display-with-symbol-alias (see C13)");
    } else {
        let mut scratch = ctx.clone();
        let rb = eval(&mut scratch, &format!("let xx_rb = {text}"));
        match (rb.ok(), scratch.verif_raw_global("xx_rb")) {
            (true, Some(VValue::Quantity(rq))) => {
                let key = |f: &numbat::verif_hooks::VFactor| (f.unit.clone(), format!("{:?}", f.prefix), f.exponent);
                let mut got: Vec<_> = rq.factors.iter().map(key).collect();
                let mut want: Vec<_> = t.factors.iter().map(key).collect();
                got.sort();
                want.sort();
                if got != want {
                    return Err(Failure::new(
                        "displayed-form-reads-back-in-another-unit",
                        format!("`q -> U` is displayed as `{text}`, which reads back in the unit `{}` instead of `{}`; {desc}", rq.unit_display, t.unit_display),
                    ));
                }
                st.label("display-read-back");
            }
            _ => st.label("displayed-form-not-readable (see C13/C14)"),
        }
    }
    // 6. a converted value converted again: the unit requested last is the one displayed
    // (the multiple-of-target form of an earlier `-> k U` must not survive)
    let back = eval(&mut ctx, &format!("(xx_q -> {rhs}) -> {}", c.q_unit));
    let Some(back_text) = back.result_text.clone() else {
        return Err(Failure::new("conversion-input-fails", format!("no result for `(xx_q -> {rhs}) -> {}`: {}", c.q_unit, back.summary())));
    };
    match split_number_unit(&back_text) {
        Some((n, unit)) if unit == q.unit_display && (rel_close(n, q.value, 1e-5) || (n == 0.0 && q.value == 0.0)) => {
            st.label("chained-conversion-displayed");
        }
        _ => {
            return Err(Failure::new(
                "chained-conversion-display-wrong",
                format!("`(q -> {rhs}) -> {}` is displayed as `{back_text}`, expected `{} {}`; {desc}", c.q_unit, q.value, q.unit_display),
            ));
        }
    }
    st.label(&format!("kind:{}", c.kind));
    if c.shared_factor {
        st.label("shared-factor");
    }
    if q.factors != t.factors {
        st.nontrivial_with_sample(hash_str(&code), || {
            json!({"q": c.q_src, "target": rhs, "via": c.via, "displayed": text})
        });
    }
    Ok(())
}

// ------------------------------------------------------------------------------------------
// generators
// ------------------------------------------------------------------------------------------

fn build_pair_cases(cfg: &Cfg) -> Vec<Case> {
    let cat = prelude_catalogue();
    let mut cases = vec![];
    let reps = cfg.tier.pick(8u64, 30u64);
    for (pi, (ua, ub)) in cat.same_dimension_pairs().into_iter().enumerate() {
        for rep in 0..reps {
            let salt = splitmix64(cfg.seed ^ 0xC04 ^ (pi as u64) << 8 ^ rep);
            let sa = spelling(&cat, ua, salt);
            let sb = spelling(&cat, ub, splitmix64(salt));
            let x = match rep % 5 {
                0 => 1.0,
                1 => 0.0,
                2 => -pseudo_mag(salt ^ 1),
                3 => pseudo_mag(salt ^ 1) * 1e9,
                _ => pseudo_mag(salt ^ 1),
            };
            let group = cat.groups.iter().find(|g| g.contains(&ua)).unwrap();
            let via = if splitmix64(salt ^ 2) % 2 == 0 {
                let uv = group[(splitmix64(salt ^ 3) % group.len() as u64) as usize];
                Some(spelling(&cat, uv, salt ^ 4).ident)
            } else {
                None
            };
            let k = if splitmix64(salt ^ 5) % 4 == 0 {
                Some([45.0, 0.01, 2.5, 1000.0][(splitmix64(salt ^ 6) % 4) as usize])
            } else {
                None
            };
            cases.push(Case {
                q_src: format!("{} {}", lit(x), sa.ident),
                q_unit: sa.ident.clone(),
                target: sb.ident.clone(),
                k,
                via,
                kind: "pair".into(),
                shared_factor: false,
            });
        }
    }
    cases
}

#[derive(Clone, Debug, Serialize, Deserialize)]
struct Slot {
    unit: u16,
    exp: u8,
    repl: u16,
    form_a: u16,
    form_b: u16,
    /// 0 = replace by a same-dimension unit, 1 = keep the same unit (shared factor),
    /// 2 = expand the unit by its own definition
    mode: u8,
}

#[derive(Clone, Debug, Serialize, Deserialize)]
struct Compound {
    slots: Vec<Slot>,
    mag: u16,
    neg: bool,
    shuffle: u64,
    via: bool,
    k: u8,
}

const EXPS: [(i128, i128); 9] = [(1, 1), (-1, 1), (2, 1), (-2, 1), (3, 1), (-3, 1), (1, 2), (-1, 2), (3, 2)];

fn exp_text(e: (i128, i128)) -> String {
    match e {
        (1, 1) => String::new(),
        (n, 1) => format!("^({n})"),
        (n, d) => format!("^({n}/{d})"),
    }
}

fn compound_strategy() -> impl Strategy<Value = Compound> {
    let slot = (idx(), 0u8..9, idx(), idx(), idx(), 0u8..4).prop_map(|(unit, exp, repl, form_a, form_b, m)| Slot {
        unit,
        exp,
        repl,
        form_a,
        form_b,
        mode: if m == 3 { 0 } else { m },
    });
    (
        proptest::collection::vec(slot, 1..5),
        idx(),
        any::<bool>(),
        any::<u64>(),
        any::<bool>(),
        0u8..4,
    )
        .prop_map(|(slots, mag, neg, shuffle, via, k)| Compound {
            slots,
            mag,
            neg,
            shuffle,
            via,
            k,
        })
}

fn build_compound(c: &Compound) -> Case {
    let cat = prelude_catalogue();
    let mut lhs: Vec<String> = vec![];
    let mut rhs: Vec<String> = vec![];
    let mut via: Vec<String> = vec![];
    let mut shared = false;
    for s in &c.slots {
        let u = pick_idx(s.unit, cat.units.len());
        let e = EXPS[s.exp as usize % EXPS.len()];
        let forms_a = cat.usable_forms(u);
        let fa = &forms_a[pick_idx(s.form_a, forms_a.len())];
        lhs.push(format!("{}{}", fa.0, exp_text(e)));
        let group = cat.groups.iter().find(|g| g.contains(&u)).unwrap();
        match s.mode {
            1 => {
                // identical factor on both sides: exercises the common-factor cancellation
                rhs.push(format!("{}{}", fa.0, exp_text(e)));
                shared = true;
            }
            2 if !cat.units[u].def.is_base && !cat.units[u].def.defining.is_empty() => {
                // expand by the unit's own definition (dimension equal by construction)
                let parts: Vec<String> = cat.units[u]
                    .def
                    .defining
                    .iter()
                    .map(|f| {
                        let fe = (f.exponent.0 * e.0, f.exponent.1 * e.1);
                        let r = Rat::new(fe.0, fe.1);
                        // write the defining unit without its prefix: another spelling of the
                        // same dimension is all that is needed
                        format!("{}{}", f.unit, exp_text((r.n, r.d)))
                    })
                    .collect();
                rhs.push(parts.join(" * "));
            }
            _ => {
                let v = group[pick_idx(s.repl, group.len())];
                let forms_b = cat.usable_forms(v);
                let fb = &forms_b[pick_idx(s.form_b, forms_b.len())];
                rhs.push(format!("{}{}", fb.0, exp_text(e)));
                if v == u && fb.0 == fa.0 {
                    shared = true;
                }
            }
        }
        // intermediate: the primary names of the first unit of each group
        via.push(format!("{}{}", cat.units[group[0]].def.name, exp_text(e)));
    }
    // deterministic shuffle of the right-hand side
    let mut x = c.shuffle;
    for i in (1..rhs.len()).rev() {
        x = splitmix64(x);
        rhs.swap(i, (x % (i as u64 + 1)) as usize);
    }
    let mags = [1.0, 2.5, 1e-3, 1234.5, 7e6, 0.0, 3.0];
    let mut m = mags[pick_idx(c.mag, mags.len())];
    if c.neg {
        m = -m;
    }
    let unit_text = format!("({})", lhs.join(" * "));
    Case {
        q_src: format!("{} * {}", lit(m), unit_text),
        q_unit: unit_text,
        target: format!("({})", rhs.join(" * ")),
        k: match c.k {
            1 => Some(45.0),
            2 => Some(0.01),
            _ => None,
        },
        via: if c.via { Some(format!("({})", via.join(" * "))) } else { None },
        kind: "compound".into(),
        shared_factor: shared,
    }
}

fn run(cfg: &Cfg) -> Report {
    let mut rep = Report::new(
        cfg,
        "(1) every ordered pair of same-dimension prelude units (complete enumeration) with magnitudes 1, 0, negative, large and random, seed-dependent alias/prefix spellings, optional intermediate unit and optional right-hand magnitude k; (2) proptest-generated compound unit expressions (products of 1-4 unit powers with integer and half-integer exponents) converted to an expression of equal dimension by construction (each unit replaced by a same-dimension unit, kept identical to exercise common-factor cancellation, or expanded by its own definition; factors shuffled). Oracle: the raw unit of `q -> U` is exactly U's factor list and the displayed unit is U's; the RefDim physical value is unchanged (1e-9); converting back restores the magnitude (1e-9, exactly for 0); converting via an intermediate agrees (1e-9); `q -> k U` is displayed as `n × k U` with n·k·U = q; `(q -> k U) -> unit of q` is displayed in q's unit with q's value. non-trivial = source and target unit differ; distinct = source text",
    );
    let pairs = build_pair_cases(cfg);
    rep.extra("pair_cases", json!(pairs.len()));
    rep.absorb(run_enumerated(cfg, "pairs", &pairs, |c| serde_json::to_value(c).unwrap(), check));
    if !rep.failed() {
        let cases = cfg.tier.pick(3000u32, 40000u32);
        rep.absorb(run_proptest(
            cfg,
            "compound",
            cases,
            compound_strategy,
            |c: &Compound| json!({"compound": c, "built": build_compound(c)}),
            |c: &Compound, st| check(&build_compound(c), st),
        ));
    }
    rep.exhaustive = Some(false);
    rep.extra("exhaustive_over", json!("ordered same-dimension unit pairs are enumerated completely; magnitudes and compound expressions are sampled"));
    rep.require_label_fraction("shared-factor", "kind:compound", 0.15);
    rep
}

fn replay(sub: &str, case: &J) -> CheckResult {
    let c: Case = if sub == "compound" {
        if let Ok(comp) = serde_json::from_value::<Compound>(case["compound"].clone()) {
            build_compound(&comp)
        } else {
            serde_json::from_value(case["built"].clone()).map_err(|e| Failure::new("harness", e.to_string()))?
        }
    } else {
        serde_json::from_value(case.clone()).map_err(|e| Failure::new("harness", e.to_string()))?
    };
    check(&c, &mut Stats::default())
}

//! C01 — accepted programs never go wrong dimensionally at run time.

use super::typedgen::*;
use crate::engine::*;
use crate::refmodel::units::*;
use crate::session::*;
use crate::PropDef;
use numbat::verif_hooks::{VType, VValue};
use proptest::prelude::*;
use serde_json::{Value as J, json};

pub fn def() -> PropDef {
    PropDef {
        id: "C01",
        run,
        replay,
    }
}

/// Run-time errors that depend on values and are documented: allowed for accepted programs.
const VALUE_DEPENDENT: &[&str] = &[
    "DivisionByZero",
    "FactorialOfNegativeNumber",
    "FactorialOfNonInteger",
    "AssertFailed",
    "AssertEq2Failed",
    "AssertEq3Failed",
    "UserError",
    "QuantityError::NonRationalExponent",
    "EmptyList",
    "DateParsingError",
    "UnknownTimezone",
    "DurationOutOfRange",
    "DateTimeOutOfRange",
    "DateFormattingError",
    "InvalidFormatSpecifiers",
    "InvalidTypeForFormatSpecifiers",
    "ChemicalElementNotFound",
];

pub fn vtype_dims(t: &VType) -> Option<DimVec> {
    match t {
        VType::Dim(p) => Some(DimVec::from_pairs(p)),
        _ => None,
    }
}

/// dimension (over base dimensions) of the unit a run-time quantity carries
fn value_dims(cat: &Catalogue, v: &VValue) -> Option<DimVec> {
    match v {
        VValue::Quantity(q) => {
            let (bu, _) = cat.unit_of_factors(&q.factors)?;
            Some(cat.dims_of(&bu))
        }
        _ => None,
    }
}

/// Does the run-time value `v` conform to the checker's type `t` as far as dimensions go?
/// Quantities are compared by the dimension of the unit they carry; structs and lists are
/// walked; anything that is not a quantity is not this property's business.
fn conforms(cat: &Catalogue, t: &VType, v: &VValue, checked: &mut usize) -> Result<(), String> {
    match (t, v) {
        (VType::Dim(p), VValue::Quantity(_)) => {
            let want = DimVec::from_pairs(p);
            let got = value_dims(cat, v);
            *checked += 1;
            if got.as_ref() == Some(&want) {
                Ok(())
            } else {
                Err(format!("the checker's type is {want} but the run-time value {v:?} carries a unit of dimension {:?}", got.map(|d| d.to_string())))
            }
        }
        (VType::Open(text), VValue::Quantity(_)) => {
            *checked += 1;
            Err(format!("the checker's type is still polymorphic (`{text}`) but the run-time value {v:?} carries one particular unit"))
        }
        (VType::Struct(_, fields), VValue::Struct(_, vals)) => {
            for (fname, ft) in fields {
                if let Some((_, fv)) = vals.iter().find(|(n, _)| n == fname) {
                    conforms(cat, ft, fv, checked).map_err(|e| format!("field `{fname}`: {e}"))?;
                }
            }
            Ok(())
        }
        (VType::List(inner), VValue::List(items)) => {
            for it in items {
                conforms(cat, inner, it, checked).map_err(|e| format!("list element: {e}"))?;
            }
            Ok(())
        }
        _ => Ok(()),
    }
}

fn check(program: &Vec<TIns>, st: &mut Stats) -> CheckResult {
    st.eval();
    let cat = prelude_catalogue();
    let mut g = Gen::new(&cat);
    g.allow_known_classes = true;
    let mut stmts: Vec<Stmt> = vec![];
    for ins in program {
        stmts.extend(g.render(ins));
    }
    let source: Vec<String> = stmts.iter().map(|s| s.text.clone()).collect();
    let class = |base: &str| {
        if g.features.second_base_unit {
            format!("{base}:second-base-unit")
        } else if g.features.inexact_float_exponent {
            format!("{base}:inexact-float-exponent")
        } else if g.features.polymorphic_literal {
            format!("{base}:polymorphic-literal")
        } else {
            base.to_string()
        }
    };
    let mut ctx = prelude();
    let mut completed = true;
    let mut checked_values = 0usize;
    let mut has_user_units = false;
    let mut types: Vec<(String, VType)> = vec![];
    let mut rejected = false;
    for (i, s) in stmts.iter().enumerate() {
        let o = eval(&mut ctx, &s.text);
        let here = || format!("statement {i}: `{}`\nprogram:\n{}", s.text, source[..=i].join("\n"));
        if let Some((loc, msg)) = &o.panic {
            return Err(Failure::new(format!("panic:{loc}"), format!("panic at {loc}: {msg}; {}", here())));
        }
        if let Some(e) = &o.error {
            if o.budget_exhausted() {
                st.label("stopped-by-step-budget");
                completed = false;
                break;
            }
            match e.stage {
                Stage::Runtime => {
                    if e.kind == "QuantityError::IncompatibleUnits" || !VALUE_DEPENDENT.contains(&e.kind.as_str()) {
                        return Err(Failure::new(
                            class("runtime-unit-error"),
                            format!("an accepted statement failed at run time with {}: {}; {}", e.kind, e.message, here()),
                        ));
                    }
                    st.label(&format!("value-dependent-error:{}", e.kind));
                    completed = false;
                    break;
                }
                _ => {
                    // The property speaks about ACCEPTED inputs. A consistent program that is
                    // rejected is C02's business (the same generator is used there, with the
                    // acceptance oracle); here the case simply ends.
                    st.label("statement-rejected (not judged here, see C02)");
                    completed = false;
                    rejected = true;
                    let _ = here;
                    break;
                }
            }
        }
        if s.text.starts_with("unit ") {
            has_user_units = true;
        }
        // the checker's type of what this statement binds (the latest definition of a name counts)
        if s.text.starts_with("let ") {
            if let (Some((name, _)), Some(info)) = (s.defines.first(), o.stmts.last()) {
                if let Some(t) = &info.vtype {
                    if let (Some(want), Some(got)) = (&s.dim, vtype_dims(t)) {
                        if &got != want {
                            // not a C01 matter by itself (C02 compares reported types with
                            // dimensional analysis); the run-time comparison below is
                            st.label("checker-type-differs-from-reference (see C02)");
                        }
                    }
                    types.retain(|(n, _)| n != name);
                    types.push((name.clone(), t.clone()));
                }
            }
        }
    }
    // run-time units of everything that was bound
    let cat_now;
    let cat_ref: &Catalogue = if has_user_units {
        cat_now = catalogue_of(&ctx);
        &cat_now
    } else {
        &cat
    };
    // every quantity bound to a global (directly, as a struct field or as a list element) carries
    // a unit whose dimension equals the type THE CHECKER assigned to it
    for (name, t) in &types {
        let Some(v) = ctx.verif_raw_global(name) else { continue };
        if let Err(what) = conforms(cat_ref, t, &v, &mut checked_values) {
            return Err(Failure::new(
                class("runtime-unit-differs-from-type"),
                format!("`{name}`: {what}\nprogram:\n{}", source.join("\n")),
            ));
        }
    }
    if rejected {
        st.label("case-ended-at-a-rejected-statement");
    }
    st.label_n("quantities-checked", checked_values as u64);
    if g.features.inexact_float_exponent {
        st.label("known-class:inexact-float-exponent-generated");
    }
    if g.features.polymorphic_literal {
        st.label("known-class:polymorphic-literal-generated");
    }
    let f = &g.features;
    if completed && (f.rational_power || f.composite_exponent || f.generic_instantiations >= 2 || f.struct_or_list || f.redefinition) {
        if f.redefinition {
            st.label("global-redefined-at-another-dimension-then-read-in-function");
        }
        if f.rational_power {
            st.label("has-rational-power");
        }
        if f.generic_instantiations >= 2 {
            st.label("generic-at-several-dimensions");
        }
        if f.struct_or_list {
            st.label("struct-or-list-of-quantities");
        }
        st.nontrivial_with_sample(hash_str(&source.join("\n")), || json!({"program": source}));
    }
    Ok(())
}

fn run(cfg: &Cfg) -> Report {
    let mut rep = Report::new(
        cfg,
        "proptest programs of 3-12 TypedGen instructions (each 1-4 statements) that are dimensionally consistent by construction: every expression is generated for a requested dimension vector from literals with prelude units of that dimension (base-unit products or named derived units), variables, + - * /, powers with integer, rational, decimal and composite compile-time exponents in ASCII and Unicode spellings, conditionals, conversions, sqrt/sqr/cbrt/abs/max/min, list functions, user-defined generic functions (annotated and inferred) instantiated at several dimensions, annotated functions, structs, lists, user dimensions with base and derived units, asserts, zeroth powers, exponents that contain `^` themselves, and redefinitions of a global at another dimension followed by a function that reads it. Each statement is evaluated as its own input. Oracle (for accepted statements; a rejected one ends the case and is C02's business): run-time failures are limited to the documented value-dependent kinds, never a unit incompatibility; the raw run-time value of every global, struct field and list element carries a unit whose dimension (RefDim over the direct unit definitions) equals the type the checker reported for that definition (a type that is still polymorphic does not equal any particular unit). non-trivial = the program has a rational/composite power, a generic function at >= 2 dimensions, or a struct/list of quantities, and ran to the end; distinct = program text",
    );
    let cases = cfg.tier.pick(1500u32, 20000u32);
    rep.absorb(run_proptest(
        cfg,
        "programs",
        cases,
        || proptest::collection::vec(tins_strategy(), 3..12),
        |p: &Vec<TIns>| {
            let cat = prelude_catalogue();
            let mut g = Gen::new(&cat);
            g.allow_known_classes = true;
            let text: Vec<String> = p.iter().flat_map(|i| g.render(i)).map(|s| s.text).collect();
            json!({"program": p, "rendered": text})
        },
        check,
    ));
    // generator health: the programs are consistent by construction, so (nearly) all of them
    // must be accepted; if not, this check has looked at too little to say anything (exit 2)
    if !rep.failed() {
        let rejected = *rep.stats.labels.get("case-ended-at-a-rejected-statement").unwrap_or(&0) as f64;
        let total = rep.stats.evaluations.max(1) as f64;
        if rejected / total > 0.05 {
            rep.infra_errors.push(format!(
                "generator health: {rejected} of {total} programs that are consistent by construction were rejected (C02 judges that); too few accepted programs were examined"
            ));
        }
    }
    rep
}

fn replay(_sub: &str, case: &J) -> CheckResult {
    let p: Vec<TIns> = serde_json::from_value(case["program"].clone()).map_err(|e| Failure::new("harness", e.to_string()))?;
    check(&p, &mut Stats::default())
}

//! A small typed statement generator for session histories (C06, C07, C22).
//!
//! A session is generated as a list of *instructions* with raw indices/seeds (so proptest can
//! shrink the list); rendering walks the list with an environment of the names in scope and
//! produces numbat source that is well-typed by construction.

use crate::engine::splitmix64;
use proptest::prelude::*;
use serde::{Deserialize, Serialize};

#[derive(Clone, Copy, Debug, PartialEq, Eq, Serialize, Deserialize)]
pub enum Ty {
    Scalar,
    Length,
    Time,
    Bool,
    Str,
}

const TYS: [Ty; 5] = [Ty::Scalar, Ty::Length, Ty::Time, Ty::Bool, Ty::Str];

pub const EXTRA_MODULES: &[&str] = &[
    "units::hartree",
    "units::stoney",
    "extra::algebra",
    "extra::color",
    "extra::cooking",
    "extra::vector3",
    "numerics::diff",
    "numerics::solve",
    "numerics::fixed_point",
    "extra::astronomy",
    // the only optional module that imports another optional module (extra::astronomy)
    "extra::celestial",
];

#[derive(Clone, Debug, Serialize, Deserialize)]
pub enum Ins {
    /// define a new variable of type ty
    Let { ty: u8, seed: u32, annotate: bool },
    /// redefine an existing variable (same or different type)
    Relet { var: u16, ty: u8, seed: u32 },
    /// define a function of one or two parameters
    Fn { param: u8, ret: u8, seed: u32, two: bool, generic: bool },
    /// redefine an existing function
    Refn { f: u16, seed: u32 },
    Unit { seed: u32 },
    BaseUnit,
    Dimension,
    Struct { seed: u32 },
    Use { module: u16 },
    Expr { ty: u8, seed: u32 },
    Print { ty: u8, seed: u32 },
    /// use of `ans` / `_` after an expression
    Ans {
        underscore: bool,
        #[serde(default)]
        kind: u8,
    },
    /// use a Scalar -> Scalar function as a value: `let v = sum(map(f, [a, b]))`
    MapFn { f: u16, seed: u32 },
    /// a derived unit that is exactly a product of base units (`unit xprod_3 = m * s`): the
    /// simplifier may name results after it from then on
    ProductUnit { which: u8 },
    /// an expression statement whose unit is such a product
    /// `let red = 7` where `red` is a constant of a not yet imported module (MODULE_NAMES)
    ModLet { which: u8 },
    /// reads that name as an expression statement
    ModRead { which: u8 },
    /// (`early` is unused, kept so that saved replay files keep loading)
    ProductExpr {
        which: u8,
        seed: u32,
        #[serde(default)]
        early: bool,
    },
}

/// (index into EXTRA_MODULES, a constant that module defines): a user definition of that name
/// made BEFORE the import is replaced by the module's, whether the three steps are one input
/// or three.
pub const MODULE_NAMES: &[(usize, &str)] = &[(3, "red"), (3, "black"), (9, "earth_orbital_eccentricity"), (3, "white")];

const PRODUCTS: &[(&str, &str, &str)] = &[("m * s", "m", "s"), ("kg * m", "kg", "m"), ("s * A", "s", "A"), ("m / K", "m", "1/K")];

pub fn ins_strategy() -> impl Strategy<Value = Ins> {
    prop_oneof![
        6 => (0u8..5, any::<u32>(), any::<bool>()).prop_map(|(ty, seed, annotate)| Ins::Let { ty, seed, annotate }),
        3 => (any::<u16>(), 0u8..5, any::<u32>()).prop_map(|(var, ty, seed)| Ins::Relet { var, ty, seed }),
        4 => (0u8..3, 0u8..5, any::<u32>(), any::<bool>(), any::<bool>()).prop_map(|(param, ret, seed, two, generic)| Ins::Fn { param, ret, seed, two, generic }),
        2 => (any::<u16>(), any::<u32>()).prop_map(|(f, seed)| Ins::Refn { f, seed }),
        2 => any::<u32>().prop_map(|seed| Ins::Unit { seed }),
        1 => Just(Ins::BaseUnit),
        1 => Just(Ins::Dimension),
        1 => any::<u32>().prop_map(|seed| Ins::Struct { seed }),
        2 => any::<u16>().prop_map(|module| Ins::Use { module }),
        4 => (0u8..5, any::<u32>()).prop_map(|(ty, seed)| Ins::Expr { ty, seed }),
        3 => (0u8..5, any::<u32>()).prop_map(|(ty, seed)| Ins::Print { ty, seed }),
        3 => (any::<bool>(), 0u8..6).prop_map(|(underscore, kind)| Ins::Ans { underscore, kind }),
        1 => (any::<u16>(), any::<u32>()).prop_map(|(f, seed)| Ins::MapFn { f, seed }),
        1 => (0u8..4).prop_map(|which| Ins::ModLet { which }),
        1 => (0u8..4).prop_map(|which| Ins::ModRead { which }),
        1 => (0u8..4).prop_map(|which| Ins::ProductUnit { which }),
        2 => (0u8..4, any::<u32>()).prop_map(|(which, seed)| Ins::ProductExpr { which, seed, early: false }),
    ]
}

#[derive(Clone, Debug, Default)]
pub struct Env {
    pub vars: Vec<(String, Ty)>,
    /// (name, parameter types, return type)
    pub fns: Vec<(String, Vec<Ty>, Ty)>,
    pub units: Vec<String>,
    pub others: Vec<String>,
    pub modules: Vec<String>,
    pub counter: usize,
    /// was the previous statement an expression of quantity type (so `ans` is usable)?
    pub ans: Option<Ty>,
    /// functions that have been used as values / redefined: bookkeeping for the known
    /// late-binding finding (not used by this generator: functions are never used as values)
    pub redefined_fn: bool,
    pub redefinitions: usize,
    /// functions that were used as values (`map(f, …)`)
    pub fn_values: Vec<String>,
    /// a function that had been used as a value was redefined later: the recorded
    /// late-binding finding (function values are looked up by name) can show
    pub fn_value_redefined: bool,
    /// product units defined so far (index into PRODUCTS)
    pub product_units: Vec<u8>,
    pub product_exprs: Vec<u8>,
    /// a product expression was shown before a unit of that product existed
    pub early_product: bool,
}

impl Env {
    fn fresh(&mut self, prefix: &str) -> String {
        self.counter += 1;
        format!("{prefix}_{}", self.counter)
    }
    pub fn all_names(&self) -> Vec<String> {
        let mut v: Vec<String> = self.vars.iter().map(|v| v.0.clone()).collect();
        v.extend(self.fns.iter().map(|f| f.0.clone()));
        v.extend(self.units.iter().cloned());
        v.extend(self.others.iter().cloned());
        v
    }
}

struct Rng(u64);
impl Rng {
    fn next(&mut self) -> u64 {
        self.0 = splitmix64(self.0);
        self.0
    }
    fn below(&mut self, n: usize) -> usize {
        if n == 0 { 0 } else { (self.next() % n as u64) as usize }
    }
}

fn literal(ty: Ty, r: &mut Rng) -> String {
    match ty {
        Ty::Scalar => format!("{}", 1 + r.below(9)),
        Ty::Length => format!("{} {}", 1 + r.below(9), ["m", "cm", "km", "inch", "mm"][r.below(5)]),
        Ty::Time => format!("{} {}", 1 + r.below(9), ["s", "min", "ms", "hour"][r.below(4)]),
        Ty::Bool => ["true", "false"][r.below(2)].to_string(),
        Ty::Str => format!("\"s{}\"", r.below(100)),
    }
}

/// An expression of type `ty` over the names in `env` (and `params`, the local names).
pub fn expr(env: &Env, params: &[(String, Ty)], ty: Ty, r: &mut Rng2, depth: u32) -> String {
    let mut rng = Rng(r.0);
    let s = expr_inner(env, params, ty, &mut rng, depth);
    r.0 = rng.0;
    s
}

pub struct Rng2(pub u64);

fn expr_inner(env: &Env, params: &[(String, Ty)], ty: Ty, r: &mut Rng, depth: u32) -> String {
    let candidates: Vec<&String> = params
        .iter()
        .chain(env.vars.iter())
        .filter(|(_, t)| *t == ty)
        .map(|(n, _)| n)
        .collect();
    let choice = r.below(if depth == 0 { 2 } else { 7 });
    match choice {
        0 => literal(ty, r),
        1 => {
            if candidates.is_empty() {
                literal(ty, r)
            } else {
                // prefer later (inner) definitions half of the time
                let i = if r.below(2) == 0 { candidates.len() - 1 } else { r.below(candidates.len()) };
                candidates[i].clone()
            }
        }
        2 | 3 => match ty {
            Ty::Scalar => {
                let op = ["+", "-", "*"][r.below(3)];
                format!("({} {op} {})", expr_inner(env, params, ty, r, depth - 1), expr_inner(env, params, ty, r, depth - 1))
            }
            Ty::Length | Ty::Time => {
                if r.below(2) == 0 {
                    let op = ["+", "-"][r.below(2)];
                    format!("({} {op} {})", expr_inner(env, params, ty, r, depth - 1), expr_inner(env, params, ty, r, depth - 1))
                } else {
                    format!("({} * {})", expr_inner(env, params, Ty::Scalar, r, depth - 1), expr_inner(env, params, ty, r, depth - 1))
                }
            }
            Ty::Bool => {
                let k = r.below(4);
                if k == 0 {
                    format!("({} && {})", expr_inner(env, params, ty, r, depth - 1), expr_inner(env, params, ty, r, depth - 1))
                } else if k == 1 {
                    format!("!({})", expr_inner(env, params, ty, r, depth - 1))
                } else {
                    let t = [Ty::Scalar, Ty::Length, Ty::Time][r.below(3)];
                    let op = ["<", ">", "<=", ">="][r.below(4)];
                    format!("({} {op} {})", expr_inner(env, params, t, r, depth - 1), expr_inner(env, params, t, r, depth - 1))
                }
            }
            Ty::Str => {
                let t = [Ty::Scalar, Ty::Bool, Ty::Str][r.below(3)];
                format!("\"a{{{}}}b\"", expr_inner(env, params, t, r, depth - 1))
            }
        },
        4 => {
            // function call
            let fs: Vec<&(String, Vec<Ty>, Ty)> = env.fns.iter().filter(|f| f.2 == ty).collect();
            if fs.is_empty() {
                literal(ty, r)
            } else {
                let f = fs[r.below(fs.len())];
                let args: Vec<String> = f.1.iter().map(|t| expr_inner(env, params, *t, r, depth - 1)).collect();
                format!("{}({})", f.0, args.join(", "))
            }
        }
        5 => format!(
            "(if {} then {} else {})",
            expr_inner(env, params, Ty::Bool, r, depth - 1),
            expr_inner(env, params, ty, r, depth - 1),
            expr_inner(env, params, ty, r, depth - 1)
        ),
        _ => match ty {
            Ty::Length if !env.units.is_empty() => format!("({} {})", 1 + r.below(5), env.units[r.below(env.units.len())]),
            _ => literal(ty, r),
        },
    }
}

fn ty_name(ty: Ty) -> &'static str {
    match ty {
        Ty::Scalar => "Scalar",
        Ty::Length => "Length",
        Ty::Time => "Time",
        Ty::Bool => "Bool",
        Ty::Str => "String",
    }
}

/// Renders one instruction to a statement and updates the environment.
pub fn render_ins(ins: &Ins, env: &mut Env) -> String {
    let stmt = match ins {
        Ins::Let { ty, seed, annotate } => {
            let ty = TYS[*ty as usize % 5];
            let mut r = Rng(*seed as u64);
            let e = expr_inner(env, &[], ty, &mut r, 2);
            let name = env.fresh("v");
            env.vars.push((name.clone(), ty));
            env.ans = None;
            if *annotate {
                format!("let {name}: {} = {e}", ty_name(ty))
            } else {
                format!("let {name} = {e}")
            }
        }
        Ins::Relet { var, ty, seed } => {
            if env.vars.is_empty() {
                return render_ins(&Ins::Let { ty: *ty, seed: *seed, annotate: false }, env);
            }
            let i = (*var as usize) % env.vars.len();
            let ty = TYS[*ty as usize % 5];
            let mut r = Rng(*seed as u64);
            // the new value may refer to the old one
            let e = expr_inner(env, &[], ty, &mut r, 2);
            let name = env.vars[i].0.clone();
            // functions defined earlier may have captured the old variable: keep the entry's
            // type in sync with the innermost definition
            env.vars[i].1 = ty;
            env.ans = None;
            env.redefinitions += 1;
            format!("let {name} = {e}")
        }
        Ins::Fn { param, ret, seed, two, generic } => {
            let pty = [Ty::Scalar, Ty::Length, Ty::Time][*param as usize % 3];
            let rty = TYS[*ret as usize % 5];
            let mut r = Rng(*seed as u64);
            let name = env.fresh("f");
            env.ans = None;
            if *generic {
                // generic in its parameter: returns a product of the parameter
                env.fns.push((name.clone(), vec![pty], pty));
                let k = 1 + r.below(5);
                format!("fn {name}<D: Dim>(x: D) -> D = x * {k}")
            } else {
                let mut params = vec![("x".to_string(), pty)];
                if *two {
                    params.push(("y".to_string(), Ty::Scalar));
                }
                let body = expr_inner(env, &params, rty, &mut r, 2);
                let sig: Vec<String> = params.iter().map(|(n, t)| format!("{n}: {}", ty_name(*t))).collect();
                env.fns.push((name.clone(), params.iter().map(|p| p.1).collect(), rty));
                format!("fn {name}({}) -> {} = {body}", sig.join(", "), ty_name(rty))
            }
        }
        Ins::Refn { f, seed } => {
            if env.fns.is_empty() {
                return render_ins(&Ins::Fn { param: 0, ret: 0, seed: *seed, two: false, generic: false }, env);
            }
            let i = (*f as usize) % env.fns.len();
            let (name, ptys, rty) = env.fns[i].clone();
            let mut r = Rng(*seed as u64);
            let names = ["x", "y"];
            let params: Vec<(String, Ty)> = ptys.iter().enumerate().map(|(k, t)| (names[k].to_string(), *t)).collect();
            let sig: Vec<String> = params.iter().map(|(n, t)| format!("{n}: {}", ty_name(*t))).collect();
            // the new body may only call functions defined before the original definition:
            // no self-recursion and no cycle through a later function that calls this one
            let mut earlier = env.clone();
            earlier.fns.truncate(i);
            // (inside the new body the function's own name means the new definition itself)
            earlier.fns.retain(|f| f.0 != name);
            let body = expr_inner(&earlier, &params, rty, &mut r, 2);
            env.ans = None;
            env.redefinitions += 1;
            env.redefined_fn = true;
            if env.fn_values.contains(&name) {
                env.fn_value_redefined = true;
            }
            format!("fn {name}({}) -> {} = {body}", sig.join(", "), ty_name(rty))
        }
        Ins::Unit { seed } => {
            let mut r = Rng(*seed as u64);
            let name = env.fresh("xunit");
            let def = format!("{} {}", 2 + r.below(7), ["m", "cm", "inch"][r.below(3)]);
            env.units.push(name.clone());
            env.ans = None;
            format!("unit {name}: Length = {def}")
        }
        Ins::BaseUnit => {
            let d = env.fresh("XDim");
            let name = env.fresh("xbase");
            env.others.push(name.clone());
            env.others.push(d.clone());
            env.ans = None;
            format!("dimension {d}\nunit {name}: {d}")
        }
        Ins::Dimension => {
            let d = env.fresh("XDerived");
            env.others.push(d.clone());
            env.ans = None;
            format!("dimension {d} = Length^2 / Time")
        }
        Ins::Struct { seed } => {
            let mut r = Rng(*seed as u64);
            let name = env.fresh("XStruct");
            let v = env.fresh("v");
            env.others.push(name.clone());
            env.others.push(v.clone());
            env.ans = None;
            let a = expr_inner(env, &[], Ty::Scalar, &mut r, 1);
            let b = expr_inner(env, &[], Ty::Length, &mut r, 1);
            format!("struct {name} {{ a: Scalar, b: Length }}\nlet {v} = {name} {{ b: {b}, a: {a} }}")
        }
        Ins::Use { module } => {
            let m = EXTRA_MODULES[(*module as usize) % EXTRA_MODULES.len()];
            if !env.modules.contains(&m.to_string()) {
                env.modules.push(m.to_string());
            }
            env.ans = None;
            format!("use {m}")
        }
        Ins::Expr { ty, seed } => {
            let ty = TYS[*ty as usize % 5];
            let mut r = Rng(*seed as u64);
            let e = expr_inner(env, &[], ty, &mut r, 3);
            env.ans = if matches!(ty, Ty::Scalar | Ty::Length | Ty::Time) { Some(ty) } else { None };
            e
        }
        Ins::Print { ty, seed } => {
            let ty = TYS[*ty as usize % 5];
            let mut r = Rng(*seed as u64);
            let e = expr_inner(env, &[], ty, &mut r, 2);
            format!("print({e})")
        }
        Ins::MapFn { f, seed } => {
            let fs: Vec<String> = env
                .fns
                .iter()
                .filter(|f| f.1 == vec![Ty::Scalar] && f.2 == Ty::Scalar)
                .map(|f| f.0.clone())
                .collect();
            if fs.is_empty() {
                return render_ins(&Ins::Let { ty: 0, seed: *seed, annotate: false }, env);
            }
            let fname = fs[(*f as usize) % fs.len()].clone();
            let mut r = Rng(*seed as u64);
            let (a, b) = (1 + r.below(9), 1 + r.below(9));
            let name = env.fresh("v");
            env.vars.push((name.clone(), Ty::Scalar));
            if !env.fn_values.contains(&fname) {
                env.fn_values.push(fname.clone());
            }
            env.ans = None;
            format!("let {name} = sum(map({fname}, [{a}, {b}]))")
        }
        Ins::ModLet { which } => {
            let (_, name) = MODULE_NAMES[*which as usize % MODULE_NAMES.len()];
            env.ans = None;
            if !env.others.iter().any(|n| n == name) {
                env.others.push(name.to_string());
            }
            format!("let {name} = {}", 2 + *which as usize % 7)
        }
        Ins::ModRead { which } => {
            let (m, name) = MODULE_NAMES[*which as usize % MODULE_NAMES.len()];
            env.ans = None;
            if env.others.iter().any(|n| n == name) || env.modules.iter().any(|x| x == EXTRA_MODULES[m]) {
                name.to_string()
            } else {
                "3 + 4".to_string()
            }
        }
        Ins::ProductUnit { which } => {
            let (def, _, _) = PRODUCTS[*which as usize % PRODUCTS.len()];
            let name = env.fresh("xprod");
            env.others.push(name.clone());
            env.ans = None;
            let w = *which % PRODUCTS.len() as u8;
            if env.product_exprs.contains(&w) {
                // a value of this product was shown before this unit existed: if both are in
                // one input, the later `unit` statement changes how the earlier value is
                // displayed (recorded C07 finding)
                env.early_product = true;
            }
            env.product_units.push(w);
            format!("unit {name} = {def}")
        }
        Ins::ProductExpr { which, seed, .. } => {
            let (_, a, b) = PRODUCTS[*which as usize % PRODUCTS.len()];
            let mut r = Rng(*seed as u64);
            env.ans = None;
            let (x, y) = (1 + r.below(9), 2 + r.below(5));
            env.product_exprs.push(*which % PRODUCTS.len() as u8);
            format!("({x} {a}) * ({y} {b})")
        }
        Ins::Ans { underscore, kind } => {
            if let Some(ty) = env.ans {
                let a = if *underscore { "_" } else { "ans" };
                // uses that expose the unit the previous result is held in (the session keeps
                // the unsimplified value, whatever was displayed)
                match kind % 6 {
                    0 => format!("{a} * 2"),
                    1 => {
                        env.ans = None;
                        let name = env.fresh("v");
                        env.vars.push((name.clone(), ty));
                        format!("let {name} = {a}")
                    }
                    2 => {
                        env.ans = Some(Ty::Scalar);
                        format!("value_of({a})")
                    }
                    3 => {
                        env.ans = None;
                        format!("{a} * 3 cm")
                    }
                    4 => {
                        env.ans = None;
                        format!("print({a})")
                    }
                    _ => {
                        env.ans = None;
                        format!("\"{{{a}}} / {{{a} * 2}}\"")
                    }
                }
            } else {
                // an expression whose displayed (simplified) form differs from the value held
                let (a, b, c) = (1 + kind % 5, 2 + kind % 3, 1 + kind % 4);
                let (text, ty) = match kind % 4 {
                    0 => (format!("{a} km / {b} m"), Ty::Scalar),
                    1 => (format!("{a} m * {b} cm / ({c} mm)"), Ty::Length),
                    2 => (format!("{a} hour * {b} km / ({c} min)"), Ty::Length),
                    _ => (format!("{a} inch * {b} s / ({c} ms)"), Ty::Length),
                };
                env.ans = Some(ty);
                text
            }
        }
    };
    stmt
}

/// Three inputs that probe whether `ans` survives a failing input: an expression that sets
/// `ans`, an expression that is to be placed in front of the failing statement (it would
/// change `ans` if the failing input were not rolled back), and a use of `ans` afterwards.
pub fn ans_probe(env: &mut Env, which: u8) -> (String, String, String) {
    let (a, b) = (2 + which % 5, 3 + which % 4);
    let before = format!("{a} km / {b} m");
    let inside = format!("{b} m * {a} cm / (1 mm)");
    // (the caller adds `name: Scalar` to env.vars once the third input has been emitted)
    let name = env.fresh("v");
    env.ans = None;
    let after = match which % 3 {
        0 => format!("let {name} = ans"),
        1 => format!("let {name} = value_of(_) + 1"),
        _ => format!("let {name} = ans * 2"),
    };
    (before, inside, after)
}

/// Failing statements, one per failure kind.
#[derive(Clone, Copy, Debug, PartialEq, Eq, Serialize, Deserialize)]
pub enum Fail {
    UnknownModule,
    ParseError(u8),
    NameClash,
    Reserved,
    TypeMismatch,
    UnknownIdentifier,
    WrongArity,
    AnnotationMismatch,
    DivisionByZero,
    AssertFalse,
    UserError,
    RuntimeInFunction,
    AssertEq,
    /// a run-time failure in an input that defines nothing (expression statements only)
    ExprRuntime(u8),
    /// a definition whose name clashes with a name the session itself defined earlier
    /// (a unit named like a variable or function, a variable named like a unit)
    SessionNameClash(u8),
    /// a clash that only the type checker notices: a dimension or struct defined twice, a
    /// variable named like a function, a function named like a variable (prelude or session names)
    CheckerNameClash(u8),
    /// a type error in an input that mentions a currency unit: with on-demand loading of the
    /// currency module (the CLI's default; C06 switches it on for sessions that contain this kind)
    /// the module is loaded and stays loaded, and the input fails on the second attempt
    CurrencyOnDemand(u8),
}

pub fn fail_strategy() -> impl Strategy<Value = Fail> {
    prop_oneof![
        Just(Fail::UnknownModule),
        (0u8..4).prop_map(Fail::ParseError),
        Just(Fail::NameClash),
        Just(Fail::Reserved),
        Just(Fail::TypeMismatch),
        Just(Fail::UnknownIdentifier),
        Just(Fail::WrongArity),
        Just(Fail::AnnotationMismatch),
        Just(Fail::DivisionByZero),
        Just(Fail::AssertFalse),
        Just(Fail::UserError),
        Just(Fail::RuntimeInFunction),
        Just(Fail::AssertEq),
        (0u8..3).prop_map(Fail::ExprRuntime),
        (0u8..3).prop_map(Fail::ExprRuntime),
        (0u8..30).prop_map(Fail::SessionNameClash),
        (0u8..30).prop_map(Fail::SessionNameClash),
        (0u8..36).prop_map(Fail::CheckerNameClash),
        (0u8..36).prop_map(Fail::CheckerNameClash),
        (0u8..4).prop_map(Fail::CurrencyOnDemand),
    ]
}

pub fn render_fail(f: Fail, env: &mut Env) -> (String, &'static str) {
    match f {
        Fail::UnknownModule => ("use no::such_module".into(), "resolver"),
        Fail::ParseError(k) => (
            ["let = 3", "1 +", "fn (", "let q = (1 m"][k as usize % 4].to_string(),
            "parse",
        ),
        Fail::NameClash => ("let metre = 1".into(), "name"),
        Fail::Reserved => ("let _ = 1".into(), "name"),
        Fail::TypeMismatch => ("let zz_bad = 1 m + 1 s".into(), "type"),
        Fail::UnknownIdentifier => ("let zz_bad = zz_undefined_name + 1".into(), "type"),
        Fail::WrongArity => ("let zz_bad = sqrt(1, 2, 3)".into(), "type"),
        Fail::AnnotationMismatch => ("let zz_bad: Length = 1 s".into(), "type"),
        Fail::DivisionByZero => ("let zz_bad = 1 / 0".into(), "runtime"),
        Fail::AssertFalse => ("assert(1 > 2)".into(), "runtime"),
        Fail::UserError => ("let zz_bad = error(\"boom\") + 1".into(), "runtime"),
        Fail::RuntimeInFunction => {
            let name = env.fresh("fz");
            env.others.push(name.clone());
            (format!("fn {name}(x: Scalar) -> Scalar = 1 / x\nlet zz_bad = {name}(0)"), "runtime")
        }
        Fail::AssertEq => ("assert_eq(1 m, 2 m)".into(), "runtime"),
        Fail::SessionNameClash(k) => {
            let text = match k % 3 {
                0 => (!env.vars.is_empty()).then(|| format!("unit {}: Length = 2 m", env.vars[(k / 3) as usize % env.vars.len()].0)),
                1 => (!env.units.is_empty()).then(|| format!("let {} = 1", env.units[(k / 3) as usize % env.units.len()])),
                _ => (!env.fns.is_empty()).then(|| format!("unit {}: Length = 3 m", env.fns[(k / 3) as usize % env.fns.len()].0)),
            };
            (text.unwrap_or_else(|| "let metre = 1".into()), "name")
        }
        Fail::CheckerNameClash(k) => {
            let pick = (k / 6) as usize;
            let text = match k % 6 {
                0 => Some("dimension Velocity".to_string()),
                1 => Some("dimension Length = Time * Mass".to_string()),
                2 => Some(format!("let {} = 2", ["sqrt", "sin", "len", "mean", "abs", "floor"][pick % 6])),
                3 => Some(format!("fn {}() = 3", ["pi", "e", "tau", "speed_of_light", "golden_ratio", "avogadro_constant"][pick % 6])),
                4 => (!env.fns.is_empty()).then(|| format!("let {} = 2", env.fns[pick % env.fns.len()].0)),
                _ => (!env.vars.is_empty()).then(|| format!("fn {}() = 3", env.vars[pick % env.vars.len()].0)),
            };
            (text.unwrap_or_else(|| "dimension Energy".into()), "name")
        }
        Fail::CurrencyOnDemand(k) => {
            if !env.modules.iter().any(|m| m == "units::currencies") {
                env.modules.push("units::currencies".to_string());
            }
            (["let zz_bad = 2 USD + 1 m", "let zz_bad: Length = 3 JPY", "2 dollars + 1 s", "let zz_bad = sqrt(4 GBP) + 1"][k as usize % 4].to_string(), "type")
        }
        Fail::ExprRuntime(k) => (["2 * (1 / 0)", "error(\"boom\")", "4 km / (2 m - 200 cm) * 0 + 1 / 0"][k as usize % 3].to_string(), "runtime"),
    }
}

//! libFuzzer target for C08: any text, in one of three sessions, must end in a result or a
//! rendered error. The oracle is `nbv::props::c08::fuzz_bytes` (the one the proptest check uses);
//! panics listed as known findings are tolerated so that the campaign does not rediscover one
//! crash forever, anything else aborts and leaves the input as an artifact.
#![no_main]
use libfuzzer_sys::fuzz_target;
use std::sync::Once;

static INIT: Once = Once::new();

fuzz_target!(|data: &[u8]| {
    // libfuzzer-sys installs an aborting panic hook; the harness needs to catch panics itself
    INIT.call_once(nbv::engine::install_panic_hook);
    let owned = data.to_vec();
    let verdict = std::thread::Builder::new()
        .stack_size(256 * 1024 * 1024)
        .spawn(move || nbv::props::c08::fuzz_bytes(&owned, &mut nbv::engine::Stats::default()))
        .unwrap()
        .join();
    match verdict {
        Ok(Ok(())) => {}
        Ok(Err(f)) => {
            if nbv::engine::known().matches("C08", &f.signature).is_none() {
                eprintln!("NBV-FUZZ-FAILURE signature={} what={}", f.signature, f.what);
                std::process::abort();
            }
        }
        Err(_) => {
            eprintln!("NBV-FUZZ-FAILURE signature=harness what=oracle thread panicked");
            std::process::abort();
        }
    }
});

//! C10 — parsing follows the documented grammar and precedence table.
//!
//! A reference recursive-descent parser, written from the EBNF in the header of `parser.rs`
//! and the precedence table of `book/src/basics/operations.md`, works on generated token
//! lists; numbat parses the same tokens rendered as text. Both must take the same
//! accept/reject decision and build the same tree.

use crate::engine::*;
use crate::gen_util::*;
use crate::PropDef;
use proptest::prelude::*;
use serde::{Deserialize, Serialize};
use serde_json::{Value as J, json};

pub fn def() -> PropDef {
    PropDef {
        id: "C10",
        run,
        replay,
    }
}

// ------------------------------------------------------------------------------------------
// tokens
// ------------------------------------------------------------------------------------------

#[derive(Clone, Debug, PartialEq, Serialize, Deserialize)]
pub enum Tok {
    Num(String),
    Ident(String),
    Str(String),
    Sym(String),
}

fn sym(s: &str) -> Tok {
    Tok::Sym(s.to_string())
}

const NUMS: &[&str] = &[
    "1", "2", "3", "10", "3.5", ".5", "1.", "1e3", "2.5e-3", "1E2", ".5e-3", ".25E+2", ".5e3", "5.e-1", "1_000", "1_0.2_5", "0x1F", "0xff", "0b101", "0o17", "NaN", "inf", "007", "6.02e+23",
];
const IDENTS: &[&str] = &["x", "y", "foo", "bar", "m", "km", "alpha", "f", "g", "sin", "a_b", "x2"];
const STRS: &[&str] = &["abc", "hello world", "x", "1+1"];
const MUL: &[&str] = &["*", "·", "×", "⋅"];
const DIV: &[&str] = &["/", "÷"];
const POW: &[&str] = &["^", "**"];
const CONV: &[&str] = &["->", "→", "➞", "to"];
const CMP: &[(&str, &str)] = &[
    ("<", "lt"), (">", "gt"), ("<=", "le"), ("≤", "le"), (">=", "ge"), ("≥", "ge"), ("==", "eq"), ("!=", "ne"), ("≠", "ne"),
];
const UEXP: &[(&str, i32)] = &[
    ("¹", 1), ("²", 2), ("³", 3), ("⁴", 4), ("⁵", 5), ("⁶", 6), ("⁷", 7), ("⁸", 8), ("⁹", 9),
    ("⁻¹", -1), ("⁻²", -2), ("⁻³", -3), ("⁻⁴", -4), ("⁻⁵", -5), ("⁻⁶", -6), ("⁻⁷", -7), ("⁻⁸", -8), ("⁻⁹", -9),
];

fn number_value(text: &str) -> Option<f64> {
    let t = text.replace('_', "");
    if t == "NaN" {
        return Some(f64::NAN);
    }
    if t == "inf" {
        return Some(f64::INFINITY);
    }
    for (p, radix) in [("0x", 16), ("0o", 8), ("0b", 2)] {
        if let Some(d) = t.strip_prefix(p) {
            return i128::from_str_radix(d, radix).ok().map(|v| v as f64);
        }
    }
    t.parse::<f64>().ok()
}

/// Does this number token allow an implicit multiplication to continue in front of it?
/// (Only plain decimal numbers do: hex/octal/binary literals, NaN and inf do not.)
fn is_plain_number(text: &str) -> bool {
    !(text.starts_with("0x") || text.starts_with("0o") || text.starts_with("0b") || text == "NaN" || text == "inf")
}

/// Symbolic operators that may be written without spaces next to an operand.
const GLUE_OPS: &[&str] = &["+", "-", "*", "/", "·", "×", "÷", "⋅", "^", "**", "->", "→", "➞", "<", ">", "<=", "≤", ">=", "≥", "==", "!=", "≠", "&&", "||", "|>"];

pub fn render_text(toks: &[Tok], glue: u64) -> String {
    let mut s = String::new();
    for (i, t) in toks.iter().enumerate() {
        let text = match t {
            Tok::Num(n) => n.clone(),
            Tok::Ident(n) => n.clone(),
            Tok::Str(x) => format!("\"{x}\""),
            Tok::Sym(x) => x.clone(),
        };
        if i > 0 {
            // spaces may be dropped only next to brackets and commas (never changes tokens),
            // and unicode exponents may be attached to what precedes them
            let prev = &toks[i - 1];
            let bracket = |t: &Tok| matches!(t, Tok::Sym(x) if ["(", ")", "[", "]", ","].contains(&x.as_str()));
            let uexp = matches!(t, Tok::Sym(x) if UEXP.iter().any(|u| u.0 == x));
            // a symbolic operator (ASCII or Unicode spelling) may be attached to an operand next to
            // it: `x->y`, `x→y`, `2*x`, `a≤b`; two symbols are never attached to each other (they
            // could form another operator), word operators keep their spaces
            let op = |t: &Tok| matches!(t, Tok::Sym(x) if GLUE_OPS.contains(&x.as_str()));
            let operand = |t: &Tok| matches!(t, Tok::Num(_) | Tok::Ident(_) | Tok::Str(_));
            let attach = ((op(prev) && operand(t)) || (operand(prev) && op(t))) && (glue >> ((i * 5 + 13) % 64)) & 3 == 1;
            let droppable = bracket(prev) || bracket(t) || uexp;
            // a field access is written `.name`: the tokenizer takes a period that is not
            // directly followed by an identifier character for the start of a number
            let field_name = matches!(prev, Tok::Sym(x) if x == ".") && matches!(t, Tok::Ident(_));
            let drop = field_name || attach || (droppable && (glue >> (i % 64)) & 1 == 1);
            if !drop {
                s.push(' ');
                if (glue >> ((i + 7) % 64)) & 3 == 3 {
                    s.push(' ');
                }
            }
        }
        s.push_str(&text);
    }
    s
}

// ------------------------------------------------------------------------------------------
// reference parser (from the documented grammar)
// ------------------------------------------------------------------------------------------

struct P<'a> {
    t: &'a [Tok],
    i: usize,
    depth: usize,
}

type R = Result<String, ()>;

impl<'a> P<'a> {
    fn peek(&self) -> Option<&'a Tok> {
        self.t.get(self.i)
    }
    fn is_sym(&self, s: &str) -> bool {
        matches!(self.peek(), Some(Tok::Sym(x)) if x == s)
    }
    fn eat(&mut self, s: &str) -> bool {
        if self.is_sym(s) {
            self.i += 1;
            true
        } else {
            false
        }
    }
    fn eat_any(&mut self, set: &[&str]) -> Option<String> {
        if let Some(Tok::Sym(x)) = self.peek() {
            if set.contains(&x.as_str()) {
                self.i += 1;
                return Some(x.clone());
            }
        }
        None
    }

    // expression ::= postfix_apply
    fn expression(&mut self) -> R {
        self.depth += 1;
        if self.depth > 200 {
            return Err(());
        }
        let r = self.postfix_apply();
        self.depth -= 1;
        r
    }

    // postfix_apply ::= condition ( "|>" call )*   -- the right side must be an identifier or a call
    fn postfix_apply(&mut self) -> R {
        let mut e = self.condition()?;
        while self.eat("|>") {
            // the right-hand side is a `call` whose tree is an identifier or a function call
            // (redundant parentheses around it do not change the tree)
            let c = self.call()?;
            if c.starts_with("(id ") {
                e = format!("(call {c} {e})");
            } else if c.starts_with("(call ") {
                let mut parts = split_top(&c);
                parts.push(e);
                e = format!("(call {})", parts.join(" "));
            } else {
                return Err(());
            }
        }
        Ok(e)
    }

    // condition ::= "if" conversion "then" condition "else" condition | conversion
    fn condition(&mut self) -> R {
        if self.eat("if") {
            let c = self.conversion()?;
            if !self.eat("then") {
                return Err(());
            }
            let t = self.condition()?;
            if !self.eat("else") {
                return Err(());
            }
            let e = self.condition()?;
            Ok(format!("(if {c} {t} {e})"))
        } else {
            self.conversion()
        }
    }

    fn left_assoc(&mut self, ops: &[(&str, &str)], next: fn(&mut Self) -> R) -> R {
        let mut e = next(self)?;
        loop {
            let mut matched = None;
            for (s, name) in ops {
                if self.is_sym(s) {
                    matched = Some(*name);
                    break;
                }
            }
            let Some(name) = matched else { break };
            self.i += 1;
            let r = next(self)?;
            e = format!("({name} {e} {r})");
        }
        Ok(e)
    }

    // conversion ::= logical_or ( ( "→" | "->" | "to" ) logical_or )*
    fn conversion(&mut self) -> R {
        self.left_assoc(&[("->", "conv"), ("→", "conv"), ("➞", "conv"), ("to", "conv")], Self::logical_or)
    }
    fn logical_or(&mut self) -> R {
        self.left_assoc(&[("||", "or")], Self::logical_and)
    }
    fn logical_and(&mut self) -> R {
        self.left_assoc(&[("&&", "and")], Self::logical_neg)
    }
    // logical_neg ::= ( "!" logical_neg ) | comparison
    fn logical_neg(&mut self) -> R {
        if self.eat("!") {
            let e = self.logical_neg()?;
            Ok(format!("(not {e})"))
        } else {
            self.comparison()
        }
    }
    fn comparison(&mut self) -> R {
        self.left_assoc(CMP, Self::term)
    }
    fn term(&mut self) -> R {
        self.left_assoc(&[("+", "add"), ("-", "sub")], Self::factor)
    }
    fn factor(&mut self) -> R {
        self.left_assoc(
            &[("*", "mul"), ("·", "mul"), ("×", "mul"), ("⋅", "mul"), ("/", "div"), ("÷", "div")],
            Self::per_factor,
        )
    }
    fn per_factor(&mut self) -> R {
        self.left_assoc(&[("per", "div")], Self::unary)
    }
    // unary ::= ( ( minus | plus ) unary ) | ifactor
    fn unary(&mut self) -> R {
        if self.eat("-") {
            let e = self.unary()?;
            Ok(format!("(neg {e})"))
        } else if self.eat("+") {
            self.unary()
        } else {
            self.ifactor()
        }
    }
    // ifactor ::= power ( " " power )*   -- continues before a number, identifier, "(" or "?"
    fn ifactor(&mut self) -> R {
        let mut e = self.power()?;
        loop {
            let cont = match self.peek() {
                Some(Tok::Num(n)) => is_plain_number(n),
                Some(Tok::Ident(_)) => true,
                Some(Tok::Sym(s)) => s == "(" || s == "?",
                _ => false,
            };
            if !cont {
                break;
            }
            let r = self.power()?;
            e = format!("(mul {e} {r})");
        }
        Ok(e)
    }
    // power ::= factorial ( "^" "-" ? power ) ?
    fn power(&mut self) -> R {
        let e = self.factorial()?;
        if self.eat_any(POW).is_some() {
            let neg = self.eat("-");
            let mut r = self.power()?;
            if neg {
                r = format!("(neg {r})");
            }
            return Ok(format!("(pow {e} {r})"));
        }
        Ok(e)
    }
    // factorial ::= unicode_power "!" *
    fn factorial(&mut self) -> R {
        let e = self.unicode_power()?;
        let mut order = 0;
        while self.eat("!") {
            order += 1;
        }
        if order > 0 {
            Ok(format!("(fact{order} {e})"))
        } else {
            Ok(e)
        }
    }
    // unicode_power ::= call ( "⁻" ? digit ) ?
    fn unicode_power(&mut self) -> R {
        let e = self.call()?;
        if let Some(Tok::Sym(s)) = self.peek() {
            if let Some((_, n)) = UEXP.iter().find(|u| u.0 == s) {
                self.i += 1;
                return Ok(format!("(pow {e} (num {:?}))", *n as f64));
            }
        }
        Ok(e)
    }
    fn call(&mut self) -> R {
        self.call_parts().map(|p| p.0)
    }
    /// call ::= primary ( ( "(" arguments? ")" ) | "." identifier ) *
    /// returns (sexpr, is a bare identifier, is a call, callee sexpr of the outermost call, its args)
    fn call_parts(&mut self) -> Result<(String, bool, bool, String, Vec<String>), ()> {
        let (mut e, mut is_ident) = self.primary()?;
        let mut is_call = false;
        let mut callee = String::new();
        let mut args_last: Vec<String> = vec![];
        loop {
            if self.eat("(") {
                let mut args = vec![];
                if !self.eat(")") {
                    args.push(self.expression()?);
                    loop {
                        if self.eat(",") {
                            if self.eat(")") {
                                break;
                            }
                            args.push(self.expression()?);
                        } else if self.eat(")") {
                            break;
                        } else {
                            return Err(());
                        }
                    }
                }
                callee = e.clone();
                args_last = args.clone();
                e = if args.is_empty() { format!("(call {e})") } else { format!("(call {e} {})", args.join(" ")) };
                is_ident = false;
                is_call = true;
            } else if self.eat(".") {
                let Some(Tok::Ident(name)) = self.peek() else { return Err(()) };
                self.i += 1;
                e = format!("(field {e} {name})");
                is_ident = false;
                is_call = false;
            } else {
                return Ok((e, is_ident, is_call, callee, args_last));
            }
        }
    }
    // primary ::= boolean | string | number | identifier ( struct_expr ? ) | typed_hole | list_expr | "(" expression ")"
    fn primary(&mut self) -> Result<(String, bool), ()> {
        match self.peek() {
            Some(Tok::Num(n)) => {
                self.i += 1;
                let v = number_value(n).ok_or(())?;
                Ok((format!("(num {v:?})"), false))
            }
            Some(Tok::Str(s)) => {
                self.i += 1;
                Ok((if s.is_empty() { "(str)".to_string() } else { format!("(str {s:?})") }, false))
            }
            Some(Tok::Ident(name)) => {
                self.i += 1;
                if self.eat("{") {
                    let mut fields = vec![];
                    while !self.eat("}") {
                        let Some(Tok::Ident(f)) = self.peek() else { return Err(()) };
                        self.i += 1;
                        if !self.eat(":") {
                            return Err(());
                        }
                        let e = self.expression()?;
                        let comma = self.eat(",");
                        if !comma && !self.is_sym("}") {
                            return Err(());
                        }
                        fields.push(format!("({f} {e})"));
                    }
                    let body = if fields.is_empty() { String::new() } else { format!(" {}", fields.join(" ")) };
                    return Ok((format!("(struct {name}{body})"), false));
                }
                Ok((format!("(id {name})"), true))
            }
            Some(Tok::Sym(s)) => match s.as_str() {
                "true" | "false" => {
                    self.i += 1;
                    Ok((format!("(bool {s})"), false))
                }
                "?" => {
                    self.i += 1;
                    Ok(("(hole)".to_string(), false))
                }
                "[" => {
                    self.i += 1;
                    let mut elems = vec![];
                    while !self.eat("]") {
                        elems.push(self.expression()?);
                        if !self.eat(",") && !self.is_sym("]") {
                            return Err(());
                        }
                    }
                    let body = if elems.is_empty() { String::new() } else { format!(" {}", elems.join(" ")) };
                    Ok((format!("(list{body})"), false))
                }
                "(" => {
                    self.i += 1;
                    let e = self.expression()?;
                    if !self.eat(")") {
                        return Err(());
                    }
                    Ok((e, false))
                }
                _ => Err(()),
            },
            None => Err(()),
        }
    }
}

/// Elements of an S-expression after its head word: `(call a (b c) "x y")` -> [a, (b c), "x y"]
fn split_top(s: &str) -> Vec<String> {
    let inner = &s[1..s.len() - 1];
    let mut out = vec![];
    let mut cur = String::new();
    let (mut depth, mut in_str, mut esc) = (0i32, false, false);
    for ch in inner.chars() {
        if in_str {
            cur.push(ch);
            if esc {
                esc = false;
            } else if ch == '\\' {
                esc = true;
            } else if ch == '"' {
                in_str = false;
            }
            continue;
        }
        match ch {
            '"' => {
                in_str = true;
                cur.push(ch);
            }
            '(' => {
                depth += 1;
                cur.push(ch);
            }
            ')' => {
                depth -= 1;
                cur.push(ch);
            }
            ' ' if depth == 0 => {
                if !cur.is_empty() {
                    out.push(std::mem::take(&mut cur));
                }
            }
            _ => cur.push(ch),
        }
    }
    if !cur.is_empty() {
        out.push(cur);
    }
    out.remove(0); // head word
    out
}

pub fn reference_parse(toks: &[Tok]) -> R {
    let mut p = P { t: toks, i: 0, depth: 0 };
    let e = p.expression()?;
    if p.i != toks.len() {
        return Err(());
    }
    Ok(e)
}

// ------------------------------------------------------------------------------------------
// generators
// ------------------------------------------------------------------------------------------

#[derive(Clone, Debug, Serialize, Deserialize)]
pub enum E {
    Num(u8),
    Id(u8),
    Bool(bool),
    Str(u8),
    Hole,
    Neg(Box<E>),
    Plus(Box<E>),
    Not(Box<E>),
    Fact(Box<E>, u8),
    UPow(Box<E>, u8),
    /// level, spelling index, lhs, rhs  (levels: 2 conv, 3 or, 4 and, 6 cmp, 7 term, 8 factor, 9 per)
    Bin(u8, u8, Box<E>, Box<E>),
    IMul(Box<E>, Box<E>),
    Pow(Box<E>, bool, Box<E>, u8),
    Call(Box<E>, Vec<E>),
    Field(Box<E>, u8),
    If(Box<E>, Box<E>, Box<E>),
    List(Vec<E>),
    Struct(u8, Vec<(u8, E)>),
    Pipe(Box<E>, u8, Option<Vec<E>>),
    /// redundant parentheses
    Paren(Box<E>),
}

fn e_strategy() -> impl Strategy<Value = E> {
    let leaf = prop_oneof![
        5 => any::<u8>().prop_map(E::Num),
        5 => any::<u8>().prop_map(E::Id),
        1 => any::<bool>().prop_map(E::Bool),
        1 => any::<u8>().prop_map(E::Str),
        1 => Just(E::Hole),
    ];
    leaf.prop_recursive(5, 40, 3, |inner| {
        let b = |s: BoxedStrategy<E>| s.prop_map(Box::new);
        let i = inner.clone().boxed();
        prop_oneof![
            3 => b(i.clone()).prop_map(E::Neg),
            1 => b(i.clone()).prop_map(E::Plus),
            2 => b(i.clone()).prop_map(E::Not),
            2 => (b(i.clone()), 1u8..4).prop_map(|(e, n)| E::Fact(e, n)),
            2 => (b(i.clone()), any::<u8>()).prop_map(|(e, n)| E::UPow(e, n)),
            10 => (prop_oneof![Just(2u8), Just(3u8), Just(4u8), Just(6u8), Just(7u8), Just(7u8), Just(8u8), Just(8u8), Just(9u8)], any::<u8>(), b(i.clone()), b(i.clone()))
                .prop_map(|(l, s, a, c)| E::Bin(l, s, a, c)),
            4 => (b(i.clone()), b(i.clone())).prop_map(|(a, c)| E::IMul(a, c)),
            4 => (b(i.clone()), any::<bool>(), b(i.clone()), any::<u8>()).prop_map(|(a, n, c, s)| E::Pow(a, n, c, s)),
            2 => (b(i.clone()), proptest::collection::vec(i.clone(), 0..3)).prop_map(|(c, a)| E::Call(c, a)),
            1 => (b(i.clone()), any::<u8>()).prop_map(|(e, f)| E::Field(e, f)),
            2 => (b(i.clone()), b(i.clone()), b(i.clone())).prop_map(|(c, t, e)| E::If(c, t, e)),
            1 => proptest::collection::vec(i.clone(), 0..3).prop_map(E::List),
            1 => (any::<u8>(), proptest::collection::vec((any::<u8>(), i.clone()), 0..3)).prop_map(|(n, f)| E::Struct(n, f)),
            1 => (b(i.clone()), any::<u8>(), proptest::option::of(proptest::collection::vec(i.clone(), 0..2))).prop_map(|(e, f, a)| E::Pipe(e, f, a)),
            2 => b(i).prop_map(E::Paren),
        ]
    })
}

fn level(e: &E) -> u8 {
    match e {
        E::Pipe(..) => 0,
        E::If(..) => 1,
        E::Bin(l, ..) => *l,
        E::Not(_) => 5,
        E::Neg(_) | E::Plus(_) => 10,
        E::IMul(..) => 11,
        E::Pow(..) => 12,
        E::Fact(..) => 13,
        E::UPow(..) => 14,
        E::Call(..) | E::Field(..) => 15,
        _ => 16,
    }
}

fn pick<'a>(set: &[&'a str], i: u8) -> &'a str {
    set[i as usize % set.len()]
}

/// Render with the minimal parentheses the documented grammar requires.
fn render(e: &E, min: u8, out: &mut Vec<Tok>) {
    if level(e) < min {
        out.push(sym("("));
        render(e, 0, out);
        out.push(sym(")"));
        return;
    }
    match e {
        E::Num(i) => out.push(Tok::Num(pick(NUMS, *i).to_string())),
        E::Id(i) => out.push(Tok::Ident(pick(IDENTS, *i).to_string())),
        E::Bool(b) => out.push(sym(if *b { "true" } else { "false" })),
        E::Str(i) => out.push(Tok::Str(pick(STRS, *i).to_string())),
        E::Hole => out.push(sym("?")),
        E::Neg(a) => {
            out.push(sym("-"));
            render(a, 10, out);
        }
        E::Plus(a) => {
            out.push(sym("+"));
            render(a, 10, out);
        }
        E::Not(a) => {
            out.push(sym("!"));
            render(a, 5, out);
        }
        E::Fact(a, n) => {
            render(a, 14, out);
            for _ in 0..*n {
                out.push(sym("!"));
            }
        }
        E::UPow(a, n) => {
            render(a, 15, out);
            out.push(sym(UEXP[*n as usize % UEXP.len()].0));
        }
        E::Bin(l, s, a, c) => {
            let op = match l {
                2 => pick(CONV, *s),
                3 => "||",
                4 => "&&",
                6 => CMP[*s as usize % CMP.len()].0,
                7 => pick(&["+", "-"], *s),
                8 => {
                    if s % 2 == 0 {
                        pick(MUL, s / 2)
                    } else {
                        pick(DIV, s / 2)
                    }
                }
                _ => "per",
            };
            // left-associative chains: the left operand may be of the same level
            render(a, *l, out);
            out.push(sym(op));
            render(c, *l + 1, out);
        }
        E::IMul(a, c) => {
            render(a, 11, out);
            // the right operand must start with a number, identifier, "(" or "?"
            let mut rhs = vec![];
            render(c, 12, &mut rhs);
            let ok = match rhs.first() {
                Some(Tok::Num(n)) => is_plain_number(n),
                Some(Tok::Ident(_)) => true,
                Some(Tok::Sym(s)) => s == "(" || s == "?",
                _ => false,
            };
            if ok {
                out.extend(rhs);
            } else {
                out.push(sym("("));
                out.extend(rhs);
                out.push(sym(")"));
            }
        }
        E::Pow(a, neg, c, s) => {
            render(a, 13, out);
            out.push(sym(pick(POW, *s)));
            if *neg {
                out.push(sym("-"));
            }
            render(c, 12, out);
        }
        E::Call(c, args) => {
            render(c, 15, out);
            out.push(sym("("));
            for (i, a) in args.iter().enumerate() {
                if i > 0 {
                    out.push(sym(","));
                }
                render(a, 0, out);
            }
            out.push(sym(")"));
        }
        E::Field(a, f) => {
            render(a, 15, out);
            out.push(sym("."));
            out.push(Tok::Ident(pick(IDENTS, *f).to_string()));
        }
        E::If(c, t, e2) => {
            out.push(sym("if"));
            render(c, 2, out);
            out.push(sym("then"));
            render(t, 1, out);
            out.push(sym("else"));
            render(e2, 1, out);
        }
        E::List(items) => {
            out.push(sym("["));
            for (i, a) in items.iter().enumerate() {
                if i > 0 {
                    out.push(sym(","));
                }
                render(a, 0, out);
            }
            out.push(sym("]"));
        }
        E::Struct(n, fields) => {
            out.push(Tok::Ident(pick(&["Foo", "Bar", "Vec"], *n).to_string()));
            out.push(sym("{"));
            for (i, (f, a)) in fields.iter().enumerate() {
                if i > 0 {
                    out.push(sym(","));
                }
                out.push(Tok::Ident(pick(IDENTS, *f).to_string()));
                out.push(sym(":"));
                render(a, 0, out);
            }
            out.push(sym("}"));
        }
        E::Pipe(a, f, args) => {
            render(a, 0, out);
            out.push(sym("|>"));
            out.push(Tok::Ident(pick(IDENTS, *f).to_string()));
            if let Some(args) = args {
                out.push(sym("("));
                for (i, x) in args.iter().enumerate() {
                    if i > 0 {
                        out.push(sym(","));
                    }
                    render(x, 0, out);
                }
                out.push(sym(")"));
            }
        }
        E::Paren(a) => {
            out.push(sym("("));
            render(a, 0, out);
            out.push(sym(")"));
        }
    }
}

fn soup_vocab() -> Vec<Tok> {
    let mut v = vec![];
    for n in NUMS {
        v.push(Tok::Num(n.to_string()));
    }
    for i in IDENTS {
        v.push(Tok::Ident(i.to_string()));
    }
    v.push(Tok::Str("abc".into()));
    for s in [
        "+", "-", "*", "/", "·", "×", "÷", "⋅", "^", "**", "per", "->", "→", "➞", "to", "<", ">", "<=", "≤", ">=", "≥", "==", "!=", "≠", "&&", "||", "!", "|>", "(", ")", "[", "]", ",", ".", "{", "}", ":", "?", "if", "then", "else", "true", "false", "²", "³", "⁻¹", "⁹",
    ] {
        v.push(sym(s));
    }
    v
}

#[derive(Clone, Debug, Serialize, Deserialize)]
enum G {
    Tree { e: E, glue: u64 },
    Mutated { e: E, ops: Vec<(u8, u16, u16)>, glue: u64 },
    Soup { toks: Vec<u16>, glue: u64 },
}

fn g_strategy() -> impl Strategy<Value = G> {
    prop_oneof![
        5 => (e_strategy(), any::<u64>()).prop_map(|(e, glue)| G::Tree { e, glue }),
        3 => (e_strategy(), proptest::collection::vec((0u8..3, idx(), idx()), 1..3), any::<u64>()).prop_map(|(e, ops, glue)| G::Mutated { e, ops, glue }),
        2 => (proptest::collection::vec(idx(), 1..12), any::<u64>()).prop_map(|(toks, glue)| G::Soup { toks, glue }),
    ]
}

fn tokens_of(g: &G) -> (Vec<Tok>, u64, &'static str) {
    match g {
        G::Tree { e, glue } => {
            let mut t = vec![];
            render(e, 0, &mut t);
            (t, *glue, "tree")
        }
        G::Mutated { e, ops, glue } => {
            let mut t = vec![];
            render(e, 0, &mut t);
            let vocab = soup_vocab();
            for (k, a, b) in ops {
                if t.is_empty() {
                    break;
                }
                let i = pick_idx(*a, t.len());
                match k % 3 {
                    0 => {
                        t.remove(i);
                    }
                    1 => t.insert(i, vocab[pick_idx(*b, vocab.len())].clone()),
                    _ => t[i] = vocab[pick_idx(*b, vocab.len())].clone(),
                }
            }
            (t, *glue, "mutated")
        }
        G::Soup { toks, glue } => {
            let vocab = soup_vocab();
            (toks.iter().map(|i| vocab[pick_idx(*i, vocab.len())].clone()).collect(), *glue, "soup")
        }
    }
}

/// statement-level constructs the expression grammar does not cover: inputs that start like
/// another statement kind are skipped
fn outside_scope(toks: &[Tok]) -> bool {
    toks.is_empty()
}

fn distinct_levels(toks: &[Tok]) -> usize {
    let mut s = std::collections::BTreeSet::new();
    for t in toks {
        if let Tok::Sym(x) = t {
            let l = match x.as_str() {
                "|>" => 0,
                "if" => 1,
                "->" | "→" | "➞" | "to" => 2,
                "||" => 3,
                "&&" => 4,
                "<" | ">" | "<=" | "≤" | ">=" | "≥" | "==" | "!=" | "≠" => 6,
                "+" | "-" => 7,
                "*" | "/" | "·" | "×" | "÷" | "⋅" => 8,
                "per" => 9,
                "^" | "**" => 12,
                "!" => 13,
                _ => continue,
            };
            s.insert(l);
        }
    }
    s.len()
}

fn check_tokens(toks: &[Tok], glue: u64, kind: &str, st: &mut Stats) -> CheckResult {
    st.eval();
    if outside_scope(toks) {
        st.excluded("empty");
        return Ok(());
    }
    let text = render_text(toks, glue);
    let want = reference_parse(toks);
    let got = match catch(|| numbat::verif_hooks::parse_sexpr(&text)) {
        Ok(g) => g,
        Err((loc, msg)) => return Err(Failure::new(format!("panic:{loc}"), format!("parsing `{text}` panicked at {loc}: {msg}"))),
    };
    match (&want, &got) {
        (Ok(w), Ok(stmts)) => {
            if stmts.len() != 1 || &stmts[0] != w {
                return Err(Failure::new(
                    "wrong-tree",
                    format!("`{text}` is parsed as {:?}; the documented grammar gives {w}", stmts),
                ));
            }
            st.label("accepted-by-both");
        }
        (Err(()), Err(_)) => {
            st.label("rejected-by-both");
        }
        (Ok(w), Err(_)) => {
            return Err(Failure::new("rejects-grammatical-input", format!("`{text}` is in the documented grammar ({w}) but numbat reports a parse error")));
        }
        (Err(()), Ok(stmts)) => {
            return Err(Failure::new(
                "accepts-ungrammatical-input",
                format!("`{text}` is outside the documented expression grammar but numbat parses it as {:?}", stmts),
            ));
        }
    }
    st.label(&format!("kind:{kind}"));
    let ops = toks.iter().filter(|t| matches!(t, Tok::Sym(s) if !["(", ")", ",", "[", "]"].contains(&s.as_str()))).count();
    if (want.is_ok() && ops >= 3 && distinct_levels(toks) >= 2) || (want.is_err() && toks.len() >= 5) {
        st.nontrivial_with_sample(hash_str(&text), || json!({"input": text, "tree": want.clone().ok(), "kind": kind}));
    }
    Ok(())
}

const DOC_EXAMPLES: &[(&str, &str)] = &[
    ("50 cm / 2 m", "(div (mul (num 50.0) (id cm)) (mul (num 2.0) (id m)))"),
    ("1 / meter per second", "(div (num 1.0) (div (id meter) (id second)))"),
    ("-2^2", "(neg (pow (num 2.0) (num 2.0)))"),
    ("2^3^4", "(pow (num 2.0) (pow (num 3.0) (num 4.0)))"),
    ("a -> b -> c", "(conv (conv (id a) (id b)) (id c))"),
    ("2!^2", "(pow (fact1 (num 2.0)) (num 2.0))"),
    ("-x!", "(neg (fact1 (id x)))"),
    ("2 x²", "(mul (num 2.0) (pow (id x) (num 2.0)))"),
    ("1 + 2 * 3 - 4", "(sub (add (num 1.0) (mul (num 2.0) (num 3.0))) (num 4.0))"),
    ("!a && b || c", "(or (and (not (id a)) (id b)) (id c))"),
    ("x |> f |> g(1)", "(call (id g) (num 1.0) (call (id f) (id x)))"),
    ("if a then b else c -> d", "(if (id a) (id b) (conv (id c) (id d)))"),
    ("2^-3", "(pow (num 2.0) (neg (num 3.0)))"),
    ("a per b per c", "(div (div (id a) (id b)) (id c))"),
    ("a / b per c * d", "(mul (div (id a) (div (id b) (id c))) (id d))"),
    ("1 < 2 == true", "(eq (lt (num 1.0) (num 2.0)) (bool true))"),
];

fn check(g: &G, st: &mut Stats) -> CheckResult {
    let (toks, glue, kind) = tokens_of(g);
    check_tokens(&toks, glue, kind, st)
}

fn run(cfg: &Cfg) -> Report {
    let mut rep = Report::new(
        cfg,
        "token sequences over the documented operators in all ASCII/Unicode spellings, 20 literal forms (decimal, .5, 1., scientific, underscores, hex/octal/binary, NaN, inf), identifiers, calls, field access, conditionals, lists, struct instances, strings, typed holes and `|>`: (1) random expression trees rendered with the minimal parentheses the documented grammar requires (plus optional redundant parentheses and varied whitespace), (2) 1-2 token deletions/insertions/replacements of such renderings, (3) token soup; plus the book's examples as fixed seeds with hand-written expected trees. Oracle: a reference recursive-descent parser written from the EBNF in parser.rs and the precedence table in book/src/basics/operations.md, run on the token list; numbat (hook: syntax tree as an S-expression) must take the same accept/reject decision and build the same tree. non-trivial = accepted input with >= 3 operators from >= 2 precedence levels, or a rejected input of >= 5 tokens; distinct = input text",
    );
    // fixed seeds: the documented examples with hand-written trees
    for (text, tree) in DOC_EXAMPLES {
        rep.stats.eval();
        match numbat::verif_hooks::parse_sexpr(text) {
            Ok(s) if s.len() == 1 && s[0] == *tree => {}
            other => {
                rep.violations.push(Violation {
                    sub: "documented-example".into(),
                    case: json!({"text": text, "tree": tree}),
                    failure: Failure::new("wrong-tree", format!("documented example `{text}` is parsed as {other:?}, expected {tree}")),
                });
                return rep;
            }
        }
    }
    let cases = cfg.tier.pick(600000u32, 3000000u32);
    rep.absorb(run_proptest(
        cfg,
        "tokens",
        cases,
        g_strategy,
        |g: &G| {
            let (t, glue, _) = tokens_of(g);
            json!({"gen": g, "text": render_text(&t, glue)})
        },
        check,
    ));
    if cfg.tier == Tier::Thorough && !rep.failed() {
        // coverage-guided campaign: bytes select whitespace and up to 40 vocabulary tokens
        // (libFuzzer target `parse`, same reference parser as the oracle)
        rep.absorb(run_libfuzzer(cfg, "parse", 4_000_000, 48, &[], &[], fuzz_bytes));
        rep.rule.push_str("; thorough tier: followed by a coverage-guided libFuzzer campaign (16 jobs x 4,000,000 executions, empty starting corpus) whose bytes select whitespace and up to 40 vocabulary tokens, judged by the same reference parser inside the fuzz target; its executions are included in evaluations (class libfuzzer:parse:executions), not in distinct_nontrivial");
    }
    rep.assume("where the book's table (separate rows for / and *, - and +) and the EBNF (one left-associative level each) differ, the EBNF is the documented grammar; implicit multiplication continues only before a decimal number, an identifier, `(` or `?`; a trailing comma is accepted in argument lists, lists and struct fields");
    rep
}

/// Entry point shared by the libFuzzer target `parse` and the replay of its artifacts:
/// bytes 0..8 are the whitespace choices, every further byte selects one vocabulary token.
pub fn fuzz_bytes(data: &[u8], st: &mut Stats) -> CheckResult {
    if data.len() < 9 {
        return Ok(());
    }
    let glue = u64::from_le_bytes(data[..8].try_into().unwrap());
    let vocab = soup_vocab();
    let toks: Vec<Tok> = data[8..].iter().take(40).map(|b| vocab[*b as usize % vocab.len()].clone()).collect();
    check_tokens(&toks, glue, "libfuzzer", st)
}

fn replay(sub: &str, case: &J) -> CheckResult {
    if let Some(a) = case["fuzz_bytes"].as_array() {
        let b: Vec<u8> = a.iter().map(|b| b.as_u64().unwrap_or(0) as u8).collect();
        return fuzz_bytes(&b, &mut Stats::default());
    }
    if sub == "documented-example" {
        let text = case["text"].as_str().unwrap_or("");
        let tree = case["tree"].as_str().unwrap_or("");
        return match numbat::verif_hooks::parse_sexpr(text) {
            Ok(s) if s.len() == 1 && s[0] == tree => Ok(()),
            other => Err(Failure::new("wrong-tree", format!("`{text}` is parsed as {other:?}, expected {tree}"))),
        };
    }
    let g: G = serde_json::from_value(case["gen"].clone()).map_err(|e| Failure::new("harness", e.to_string()))?;
    check(&g, &mut Stats::default())
}

//! C15 — the echoed (pretty-printed) form of an input means the same as the input.

use super::c09;
use super::sessgen;
use super::typedgen;
use crate::engine::*;
use crate::refmodel::units::*;
use crate::session::*;
use crate::PropDef;
use numbat::verif_hooks::{VUnitDef, VValue};
use proptest::prelude::*;
use serde::{Deserialize, Serialize};
use serde_json::{Value as J, json};
use std::collections::BTreeMap;

pub fn def() -> PropDef {
    PropDef {
        id: "C15",
        run,
        replay,
    }
}

/// Inputs with the shapes the printer special-cases. Each entry is one session: the inputs are
/// evaluated (and echoed) one after the other.
const SPECIALS: &[&[&str]] = &[
    &["2 m * (3 s * 4 kg)", "2 * (3 * 4)", "(2 * 3) * 4", "1 m / (2 s / 3)", "(1 m / 2 s) / 3", "1 / (2 * 3)", "(1 / 2) * 3", "2 / 3 * 4", "2 / (3 / 4)"],
    &["2^(3^2)", "(2^3)^2", "-(2^2)", "(-2)^2", "-2^2", "2^-2", "2^(-2)", "2^(1/2)", "(2 m)^2", "2 m^2", "2 m²", "(2 m)³", "2^2^3"],
    &["2 - (3 - 4)", "2 - (3 + 4)", "(2 - 3) - 4", "2 + (3 - 4)", "2 - 3 + 4", "-(2 + 3)", "-(2 - 3)", "- - 2", "-(-2)", "+2"],
    &["2 per 3 per 4", "2 per (3 per 4)", "1 / meter per second", "50 cm / 2 m", "2 m per s", "(2 m) per (3 s * 4)"],
    &["3!", "3!!", "3!^2", "(2^2)!", "(1 + 2)!", "-3!", "(3!)!"],
    &["!true && false || true", "!(true && false)", "true && (false || true)", "(true && false) || true", "1 < 2 == true", "(1 < 2) && (2 < 3)", "!(1 < 2)"],
    &["1 m -> cm -> mm", "1 m -> (cm -> mm)", "2 m + 3 cm -> mm", "(2 m + 3 cm) -> mm", "2 m + (3 cm -> mm)", "7 m -> 3 cm", "6 hours -> 45 min", "1 km to m"],
    &["(if true then 1 m else 2 m) -> cm", "if true then 1 m else 2 m -> cm", "if true then 1 else if false then 2 else 3", "(if true then 1 else 2) + 3", "if true then 1 else 2 + 3", "2 * (if true then 1 else 2)", "-(if true then 1 else 2)"],
    &["struct S_e { a: Scalar, b: Length }", "(if true then S_e {a: 1, b: 2 m} else S_e {a: 2, b: 3 m}).b", "S_e {b: 2 m, a: 1}.a", "let s_e = S_e {a: 1 + 1, b: 2 m * 3}", "s_e.b -> cm", "(s_e).a"],
    &["(if true then sin else cos)(1)", "5 m |> sqr", "[1 m, 2 m] |> head", "2 |> sqr |> sqrt", "range(1, 3) |> map(sqr)", "let h_f = sqr", "h_f(3)"],
    &["let x_d = []", "let y_d = [1, 2, 3]", "let z_d: List<Length> = [1 m, 2 cm]", "[[1, 2], [3]]", "[]"],
    &["20 °C", "-5 °F", "300 K -> °C", "(20 °C) -> °F", "20.5 °C -> K", "0 °C + 1 K"],
    &["\"plain\"", "\"a {1 + 1} b\"", "\"esc \\\" \\\\ \\n \\t end\"", "\"{{ literal }}\"", "\"{2 m} and {\"inner\"}\"", "\"{1/3:.3f}\"", "\"{12:>6}|\"", "\"nested {\"a {1 + 2} b\"} c\""],
    &["@name(\"Foo bar\")\n@url(\"https://example.com/a?b=c\")\n@description(\"Some text, with a comma\")\n@metric_prefixes\n@aliases(foos, fo: short)\nunit foo_u = 3 m", "2 kilofoo_u + 1 fo", "@aliases(quux: both)\n@binary_prefixes\nunit bar_u: Length = 2 foo_u", "1 kibibar_u -> m", "@metric_prefixes\n@aliases(fbbn: none, fbbs: short, fbbl: long, fbbo: both)\nunit foobaz_u: Length = 3 m", "2 fbbn + 1 kfbbs + 1 kilofbbl"],
    &["dimension Dim_a", "unit base_a: Dim_a", "dimension Dim_c = Length^2 / Time = Area / Time", "unit pixel_b", "2 pixel_b * 3", "@metric_prefixes\n@aliases(sq: short)\nunit squib: Dim_a^2 / Length = 3 base_a^2 / m"],
    &["fn f_g<T: Dim>(x: T, y: T) -> T^2 = x * y", "fn f_h(x) = x^2 + x", "fn f_i(x: Length, y: Time) -> Velocity = x / y", "fn f_j(x: Scalar) -> Scalar = y + z\n  where y = x * 2\n  and z = y + 1", "fn f_k<A: Dim, B: Dim>(a: A, b: B) = a^2 / b", "f_j(2) + f_h(3)", "fn f_l(xs: List<Length>) -> Length = sum(xs)", "fn f_m(f: Fn[(Scalar) -> Scalar], x: Scalar) -> Scalar = f(f(x))", "f_m(sqr, 3)", "fn f_p(a: Length, t) = a / t + 1 m/s", "fn f_q(n, s: String, k) = if n > k then s else \"x\"", "f_p(3 m, 2 s)", "f_q(1, \"a\", 2)"],
    &["@name(\"Named fn\")\n@description(\"Doc text\")\n@url(\"https://example.com\")\n@example(\"f_n(1)\", \"An example\")\nfn f_n(x: Scalar) -> Scalar = x + 1", "f_n(2)", "@name(\"A constant\")\n@aliases(c_alias)\nlet c_n: Length = 5 m", "c_alias * 2"],
    &["let a_o: Length = 2 m", "let b_o: Velocity = a_o / 3 s", "let c_o: Scalar = a_o / (4 cm) -> 1", "print(a_o)", "print(\"{a_o} / {b_o}\")", "assert_eq(a_o, 200 cm)", "assert_eq(a_o, 2.001 m, 1 cm)", "assert(a_o > 1 m)", "type(a_o * b_o)"],
    &["1e-9 m", "1.5e6", "123456789", "0.000001", "1_000_000 m", "0x1F", "0b101 + 0o7", "1e3 m / 1e-3 s", "NaN", "inf", "-inf"],
    &["2 m * 3", "2 * 3 m", "(2 * 3) m", "2 (3 m)", "2 m (3 s)", "2 kg m / s^2", "1 / 2 m", "1 / (2 m)", "3 m * -2", "3 - -2", "2 ^ -1 m"],
    &["unit_of(2 m)", "value_of(2 m) * unit_of(3 s)", "sqrt(4 m^2) + cbrt(8 m^3)", "sin(30°)", "mod(7, 3) + abs(-2 m) / m", "now() -> tz(\"UTC\") -> unixtime_s > 0", "datetime(\"2024-01-01 00:00:00 UTC\") + 3 days", "date(\"2024-02-29\")"],
    // temperature sugar as an operand of another operator
    &["from_celsius(5)^2", "celsius(300 K) + 1", "celsius(300 K)^2", "2 * celsius(300 K)", "from_celsius(celsius(300 K))", "-fahrenheit(300 K)", "from_fahrenheit(3) / 2 K", "(300 K -> °C) * 2", "1 + (2 °C) / K", "sqrt(celsius(300 K))", "[celsius(300 K), 2]"],
    // type parameters declared in non-alphabetical order, with different bounds
    &["fn f_tp1<Y, X: Dim>(a: X, b: Y) -> X = a", "f_tp1(1 m, \"s\")", "fn f_tp2<Y, X: Dim>(a: Y, b: X) = b", "f_tp2(true, 2 s)", "fn f_tp3<Z: Dim, A>(a: A, z: Z) = z^2", "f_tp3([1], 3 kg)", "fn f_tp4<T: Dim, S: Dim>(t: T, s: S) -> T / S = t / s", "f_tp4(6 m, 2 s)"],
    // a unit whose primary name takes no prefixes, used through a short alias with a prefix (recorded finding)
    &["@metric_prefixes\n@aliases(foobar_pn: none, fbpn: short)\nunit foobar_pn: Length", "2 kfbpn", "3 fbpn + 1 foobar_pn"],
    // nested powers in dimension expressions
    &["dimension Q_np1 = (Length^2)^3", "dimension Q_np2 = (Length²)^(1/2) / Time", "let q_np: (Length^2)^(1/2) = 2 m", "fn f_np(x: (Time^-1)^2) -> (Time^2)^-1 = x"],
    // literal exponents next to the ²/³ shortcut and the ⁻¹ spellings
    &["2^2.5", "2^3.5", "(2 m)^2.5", "2^2.0", "2^3.0", "2^1.5", "2^0.5", "2^-2.5", "(3 s)^-2", "(3 s)^(-3)", "2^4", "(2 m)^(3/2)", "2^(2 + 1)", "2^-1", "(4 m^2)^0.5"],
];

#[derive(Clone, Debug, Serialize, Deserialize)]
enum G {
    Sess(Vec<sessgen::Ins>),
    Typed(Vec<typedgen::TIns>),
    Ast(c09::Program),
    Special(u16),
}

fn g_strategy() -> impl Strategy<Value = G> {
    prop_oneof![
        3 => proptest::collection::vec(sessgen::ins_strategy(), 2..10).prop_map(G::Sess),
        3 => proptest::collection::vec(typedgen::tins_strategy(), 2..6).prop_map(G::Typed),
        3 => c09::program_strategy(10).prop_map(G::Ast),
    ]
}

fn inputs_of(g: &G) -> (Vec<String>, &'static str) {
    match g {
        G::Sess(ins) => {
            let mut env = sessgen::Env::default();
            (ins.iter().map(|i| sessgen::render_ins(i, &mut env)).collect(), "session-statements")
        }
        G::Typed(ins) => {
            let cat = prelude_catalogue();
            let mut tg = typedgen::Gen::new(&cat);
            (ins.iter().flat_map(|i| tg.render(i)).map(|s| s.text).collect(), "dimensional-expressions")
        }
        G::Ast(p) => (c09::program_source(p), "ast-programs"),
        G::Special(i) => (SPECIALS[(*i as usize) % SPECIALS.len()].iter().map(|s| s.to_string()).collect(), "special-shapes"),
    }
}

fn approx(a: &VValue, b: &VValue) -> bool {
    match (a, b) {
        (VValue::Quantity(p), VValue::Quantity(q)) => {
            p.factors == q.factors && (p.value == q.value || (p.value.is_nan() && q.value.is_nan()) || (p.value - q.value).abs() <= 1e-12 * p.value.abs().max(q.value.abs()))
        }
        (VValue::List(p), VValue::List(q)) => p.len() == q.len() && p.iter().zip(q).all(|(x, y)| approx(x, y)),
        (VValue::Struct(n, p), VValue::Struct(m, q)) => n == m && p.len() == q.len() && p.iter().zip(q).all(|((k1, x), (k2, y))| k1 == k2 && approx(x, y)),
        (VValue::DateTime(_), VValue::DateTime(_)) => true, // `now()` differs between two evaluations
        (x, y) => x == y,
    }
}

fn unit_map(ctx: &numbat::Context) -> BTreeMap<String, VUnitDef> {
    ctx.verif_unit_definitions().into_iter().map(|u| (u.name.clone(), u)).collect()
}

fn unit_approx(a: &VUnitDef, b: &VUnitDef) -> bool {
    let mut a2 = a.clone();
    let mut b2 = b.clone();
    let close = a.factor == b.factor || (a.factor - b.factor).abs() <= 1e-12 * a.factor.abs();
    a2.factor = 0.0;
    b2.factor = 0.0;
    a2.code_source_id = 0;
    b2.code_source_id = 0;
    a2.aliases.sort();
    b2.aliases.sort();
    close && a2 == b2
}

/// Signature classes for the recorded findings, decided on the input/echo texts.
fn classify(input: &str, echo: &str, base: &str) -> String {
    let has_unquoted_decorator = ["@name(", "@url(", "@description(", "@example("].iter().any(|d| {
        echo.match_indices(d).any(|(i, _)| !echo[i + d.len()..].starts_with('"'))
    });
    if has_unquoted_decorator {
        return format!("{base}:decorator-string-unquoted");
    }
    // a generic function (`fn name<…>`) with where-clauses: the local variables are echoed
    // with types over fresh names (`A`, `B`) instead of the function's type parameters
    let generic_with_where = echo.split("\nfn ").chain(echo.strip_prefix("fn ").into_iter()).any(|f| {
        let head = f.split('(').next().unwrap_or("");
        head.contains('<') && f.contains("\n  where ")
    });
    if generic_with_where {
        return format!("{base}:where-clause-types-in-generic-function");
    }
    // same root cause without a where-clause: the INPUT declares type parameters (`fn f<D: Dim>`)
    // and leaves a parameter without annotation; the echo then names all quantified variables
    // A, B, … but keeps the user's name in the annotations it copies (`a: D`)
    let generic_with_inferred_parameter = input.lines().any(|l| {
        let l = l.trim_start();
        let Some(rest) = l.strip_prefix("fn ") else { return false };
        let Some(open) = rest.find('(') else { return false };
        if !rest[..open].contains('<') {
            return false;
        }
        // parameter list up to the matching parenthesis
        let mut depth = 0i32;
        let mut params = String::new();
        for ch in rest[open..].chars() {
            match ch {
                '(' | '[' => {
                    depth += 1;
                    if depth > 1 {
                        params.push(ch);
                    }
                }
                ')' | ']' => {
                    depth -= 1;
                    if depth == 0 {
                        break;
                    }
                    params.push(ch);
                }
                _ => params.push(ch),
            }
        }
        let mut level = 0i32;
        let mut cur = String::new();
        let mut items = vec![];
        for ch in params.chars() {
            match ch {
                '(' | '[' | '<' => level += 1,
                ')' | ']' | '>' => level -= 1,
                ',' if level == 0 => {
                    items.push(std::mem::take(&mut cur));
                    continue;
                }
                _ => {}
            }
            cur.push(ch);
        }
        if !cur.trim().is_empty() {
            items.push(cur);
        }
        items.iter().any(|p| !p.contains(':'))
    });
    if generic_with_inferred_parameter {
        return format!("{base}:generic-function-with-inferred-parameter");
    }
    // a where-variable whose type is polymorphic (`where w = 0`) is echoed as `w: A = 0` with a
    // fresh type-variable name that is not declared anywhere (same family as `forall`)
    let undeclared_tvar_in_where = echo.lines().any(|l| {
        let t = l.trim_start();
        if !(t.starts_with("where ") || t.starts_with("and ")) {
            return false;
        }
        let Some((head, _)) = t.split_once(" = ") else { return false };
        let Some((_, ann)) = head.split_once(": ") else { return false };
        ann.split(|c: char| !c.is_alphanumeric()).any(|tok| {
            let mut cs = tok.chars();
            matches!(cs.next(), Some(c) if c.is_ascii_uppercase()) && cs.all(|c| c.is_ascii_digit())
        })
    });
    if undeclared_tvar_in_where && !generic_with_where {
        return format!("{base}:forall-in-annotation");
    }
    // `let x: Action or AngularMomentum = …`: a dimension with several names
    if echo.lines().any(|l| {
        let head = l.split(" = ").next().unwrap_or("");
        (l.trim_start().starts_with("let ") || l.trim_start().starts_with("fn ") || l.contains("where ") || l.contains("and ")) && head.contains(" or ")
    }) {
        return format!("{base}:alternative-dimension-names");
    }
    if echo.contains("forall ") {
        return format!("{base}:forall-in-annotation");
    }
    // a prefixed unit is echoed as long prefix + primary name, whatever was written: when the
    // primary name takes no long prefixes (`@aliases(name: none, n: short)`) the echo is rejected
    const LONG_PREFIXES: [&str; 12] = ["quecto", "yocto", "atto", "femto", "pico", "nano", "micro", "milli", "kilo", "mega", "giga", "tera"];
    let word = |s: &str| s.split(|c: char| !(c.is_alphanumeric() || c == '_')).filter(|w| !w.is_empty()).map(|w| w.to_string()).collect::<Vec<_>>();
    let input_words = word(input);
    if base == "echo-not-accepted" && word(echo).iter().any(|w| LONG_PREFIXES.iter().any(|p| w.starts_with(p) && w.len() > p.len()) && !input_words.contains(w)) {
        return format!("{base}:long-prefix-on-primary-name-that-takes-none");
    }
    let t = input.trim_start();
    if t.starts_with("unit ") && !input.contains(':') && !input.contains('=') {
        return format!("{base}:implicit-base-unit-dimension");
    }
    if input.contains("(if ") && (input.contains(") ->") || input.contains(").") || input.contains(")(")) {
        return format!("{base}:conditional-operand-unparenthesised");
    }
    base.to_string()
}

fn check_inputs(inputs: &[String], kind: &str, st: &mut Stats) -> CheckResult {
    let mut ctx = prelude();
    for (i, input) in inputs.iter().enumerate() {
        // one evaluation = one input whose echo is checked (the unit distinct_nontrivial counts)
        st.eval();
        let pre = ctx.clone();
        let o = eval(&mut ctx, input);
        if let Some((loc, msg)) = &o.panic {
            return Err(Failure::new(format!("panic:{loc}"), format!("`{input}` panicked at {loc}: {msg}")));
        }
        if !o.ok() {
            // the statement itself is not accepted (value-dependent error, generator slip):
            // nothing to echo; the session continues from the rolled-back state
            st.label("input-not-accepted");
            continue;
        }
        if o.stmts.is_empty() {
            continue;
        }
        let echo: String = o.stmts.iter().map(|s| s.pretty.clone()).collect::<Vec<_>>().join("\n");
        let here = || format!("input {i} `{}`\necho    `{}`", input.replace('\n', "\\n"), echo.replace('\n', "\\n"));
        let mut b = pre.clone();
        let e = eval(&mut b, &echo);
        if let Some((loc, msg)) = &e.panic {
            return Err(Failure::new(format!("panic:{loc}"), format!("echo panicked at {loc}: {msg}; {}", here())));
        }
        if let Some(err) = &e.error {
            // a value-dependent run-time error that the input happened not to hit cannot occur:
            // same pre-state, same computation
            return Err(Failure::new(
                classify(input, &echo, "echo-not-accepted"),
                format!("the echoed form is not accepted in the same session state: {:?}/{}: {}; {}", err.stage, err.kind, err.message, here()),
            ));
        }
        // same types
        let ta: Vec<_> = o.stmts.iter().map(|s| (s.kind, s.vtype.clone())).collect();
        let tb: Vec<_> = e.stmts.iter().map(|s| (s.kind, s.vtype.clone())).collect();
        if ta != tb {
            return Err(Failure::new(
                classify(input, &echo, "echo-has-different-type"),
                format!("types differ: {ta:?} vs {tb:?}; {}", here()),
            ));
        }
        // same value
        let same_result = match (&o.result, &e.result) {
            (Some(x), Some(y)) => approx(x, y),
            (None, None) => true,
            _ => false,
        };
        if !same_result {
            return Err(Failure::new(
                classify(input, &echo, "echo-has-different-value"),
                format!("the input evaluates to {:?}, its echo to {:?}; {}", o.result_text, e.result_text, here()),
            ));
        }
        if o.prints != e.prints && !input.contains("now()") {
            // the recorded sum-reassociation class (`a + (b + c)` is echoed as `a + b + c`) shows in
            // printed values too: same unit, numbers equal to rounding
            let right_nested_sum = {
                let t: String = input.chars().filter(|c| !c.is_whitespace()).collect();
                t.contains("+(") || t.contains("-(")
            };
            let equal_up_to_rounding = o.prints.len() == e.prints.len()
                && o.prints.iter().zip(&e.prints).all(|(x, y)| {
                    x == y
                        || match (split_displayed_quantity(x), split_displayed_quantity(y)) {
                            (Some((a, ua)), Some((b, ub))) => ua == ub && rel_close(a, b, 1e-6),
                            _ => false,
                        }
                });
            if right_nested_sum && equal_up_to_rounding {
                return Err(Failure::new(
                    "echo-has-different-value:sum-reassociation",
                    format!("prints differ in the rounding of a re-associated sum: {:?} vs {:?}; {}", o.prints, e.prints, here()),
                ));
            }
            return Err(Failure::new(classify(input, &echo, "echo-has-different-value"), format!("prints differ: {:?} vs {:?}; {}", o.prints, e.prints, here())));
        }
        // same definitions
        let (va, vb): (Vec<String>, Vec<String>) = (ctx.variable_names().map(|s| s.to_string()).collect(), b.variable_names().map(|s| s.to_string()).collect());
        if va != vb {
            return Err(Failure::new(classify(input, &echo, "echo-defines-different-names"), format!("variables differ; {}", here())));
        }
        // The statements of an imported module may contain literals with more than the six
        // significant digits that are echoed (`23.4392811°`): the property's precondition on
        // literals does not hold for them, so values defined by `use` are not compared.
        let literals_under_control = !input.trim_start().starts_with("use ");
        for n in &va {
            if !literals_under_control {
                break;
            }
            if pre.verif_raw_global(n) == ctx.verif_raw_global(n) && pre.verif_raw_global(n) == b.verif_raw_global(n) {
                continue;
            }
            match (ctx.verif_raw_global(n), b.verif_raw_global(n)) {
                (Some(x), Some(y)) if approx(&x, &y) => {}
                (x, y) => {
                    // The printer also drops the parentheses of right-nested sums
                    // (`a + (b + c)` -> `a + b + c`). Floating-point addition is not associative
                    // and the unit of a sum depends on the grouping, so the echo may give the same
                    // quantity in another unit / with another rounding: recorded finding class.
                    let right_nested_sum = {
                        let t: String = input.chars().filter(|c| !c.is_whitespace()).collect();
                        t.contains("+(") || t.contains("-(")
                    };
                    if right_nested_sum {
                        if let (Some(VValue::Quantity(p)), Some(VValue::Quantity(q))) = (&x, &y) {
                            let cat = catalogue_of(&ctx);
                            if let (Some(pp), Some(pq)) = (cat.physical(p), cat.physical(q)) {
                                if pp.vec == pq.vec && rel_close(pp.mag, pq.mag, 1e-6) {
                                    return Err(Failure::new(
                                        "echo-has-different-value:sum-reassociation",
                                        format!("`{n}` is {} {} after the input and {} {} after its echo (same quantity, different grouping of a sum); {}", p.value, p.unit_display, q.value, q.unit_display, here()),
                                    ));
                                }
                                if pp.vec == pq.vec && kind == "dimensional-expressions" {
                                    // sums of terms in wildly different units can cancel: the
                                    // re-grouped sum may differ arbitrarily; inconclusive
                                    st.label("inconclusive:cancellation-sensitive-sum");
                                    continue;
                                }
                            }
                        }
                    }
                    return Err(Failure::new(
                        classify(input, &echo, "echo-has-different-value"),
                        format!("`{n}` is {x:?} after the input and {y:?} after its echo; {}", here()),
                    ));
                }
            }
        }
        let fa: BTreeMap<String, String> = ctx.functions().map(|f| (f.fn_name.to_string(), f.signature_str.to_string())).collect();
        let fb: BTreeMap<String, String> = b.functions().map(|f| (f.fn_name.to_string(), f.signature_str.to_string())).collect();
        // the printed signature of an annotated function repeats the annotation's spelling
        // (`A^2` vs `A²`): compare modulo that spelling; the checker's types were compared above
        let norm_sig = |m: &BTreeMap<String, String>| -> BTreeMap<String, String> {
            m.iter().map(|(k, v)| (k.clone(), v.replace("^2", "²").replace("^3", "³").replace("^(2)", "²").replace("^(3)", "³").replace(' ', ""))).collect()
        };
        if norm_sig(&fa).keys().ne(norm_sig(&fb).keys()) {
            let d: Vec<_> = fa.iter().filter(|(k, v)| fb.get(*k) != Some(v)).map(|(k, v)| (k, v, fb.get(k))).collect();
            return Err(Failure::new(classify(input, &echo, "echo-has-different-type"), format!("function signatures differ: {d:?}; {}", here())));
        }
        if input.contains("unit ") {
            let (ua, ub) = (unit_map(&ctx), unit_map(&b));
            if ua.len() != ub.len() || ua.iter().any(|(k, u)| ub.get(k).map(|w| !unit_approx(u, w)).unwrap_or(true)) {
                let d: Vec<_> = ua.iter().filter(|(k, u)| ub.get(*k).map(|w| !unit_approx(u, w)).unwrap_or(true)).map(|(k, _)| k.clone()).collect();
                return Err(Failure::new(classify(input, &echo, "echo-defines-different-unit"), format!("unit definitions differ for {d:?}; {}", here())));
            }
        }
        if ctx.dimension_names() != b.dimension_names() {
            return Err(Failure::new(classify(input, &echo, "echo-defines-different-names"), format!("dimensions differ; {}", here())));
        }
        // idempotence
        let echo2: String = e.stmts.iter().map(|s| s.pretty.clone()).collect::<Vec<_>>().join("\n");
        if echo2 != echo {
            // the printer drops the parentheses of right-nested products (`2 × (3 × m)` becomes
            // `2 × 3 × m`), which re-associates them on re-reading; a product whose left factor
            // becomes `number × unit` is then fused to `number unit` by the second echo
            // likewise a unicode exponent `x⁻¹` is echoed as `x^-1`, which re-reads as a negation
            // and is echoed the second time as `x^(-1)`
            let fuse = |s: &str| {
                let s = s.replace(" × ", " ");
                let mut out = String::new();
                let cs: Vec<char> = s.chars().collect();
                let mut i = 0;
                while i < cs.len() {
                    if cs[i] == '^' && i + 2 < cs.len() + 1 && cs.get(i + 1) == Some(&'-') && cs.get(i + 2).map(|c| c.is_ascii_digit()).unwrap_or(false) {
                        let mut j = i + 2;
                        while j < cs.len() && (cs[j].is_ascii_digit() || cs[j] == '.') {
                            j += 1;
                        }
                        out.push_str("^(-");
                        out.extend(cs[i + 2..j].iter());
                        out.push(')');
                        i = j;
                    } else {
                        out.push(cs[i]);
                        i += 1;
                    }
                }
                out
            };
            let sig = if fuse(&echo2) == fuse(&echo) {
                "echo-not-idempotent:product-reassociation".to_string()
            } else {
                classify(input, &echo, "echo-not-idempotent")
            };
            return Err(Failure::new(
                sig,
                format!("echoing the echo gives `{}`; {}", echo2.replace('\n', "\\n"), here()),
            ));
        }
        st.label(&format!("kind:{kind}"));
        st.label("echo-checked");
        let norm = |s: &str| s.chars().filter(|c| !c.is_whitespace()).collect::<String>();
        let interesting = input.matches(['+', '-', '*', '/', '^', '>', '<']).count() >= 2 || input.contains('@') || input.contains('{');
        if norm(input) != norm(&echo) && interesting {
            st.nontrivial_with_sample(hash_str(input), || json!({"input": input, "echo": echo, "kind": kind}));
        }
    }
    Ok(())
}

fn check(g: &G, st: &mut Stats) -> CheckResult {
    let (inputs, kind) = inputs_of(g);
    check_inputs(&inputs, kind, st)
}

fn run(cfg: &Cfg) -> Report {
    let mut rep = Report::new(
        cfg,
        "every statement is echoed one at a time inside an evolving session: (1) 21 fixed sessions with the shapes the printer special-cases (all pairs of nested arithmetic operators, powers and unicode exponents, unary minus/factorial/not around everything, scalar-unit fusion, per, conversions and conditionals in every operand position, field access and calls on parenthesised expressions, lists, temperature sugar, strings with escapes, nested interpolation and format specifiers, units with every decorator, dimensions with alternatives, implicit base-unit dimensions, generic/inferred/where-clause functions, decorated functions and constants, procedures, number literal forms); (2) proptest statements from three generators: typed session statements (sessgen), dimension-directed expressions with rational/composite exponents (TypedGen), and AST programs with functions, where-clauses, structs, lists and interpolation (C09's generator). Oracle: the pretty-printed form of each accepted statement is accepted on a clone of the same pre-state, has the same checker types, the same result value, prints and defined values (exact, or 1e-12 relative because the printer re-associates products), the same function signatures, unit definitions and dimension names, and echoing the echo reproduces the text. non-trivial = the echo differs from the input beyond whitespace and the statement has >= 2 operators, a decorator or an interpolation; distinct = input text",
    );
    let specials: Vec<G> = (0..SPECIALS.len() as u16).map(G::Special).collect();
    rep.absorb(run_enumerated(cfg, "special", &specials, |g| json!({"gen": g, "inputs": inputs_of(g).0}), check));
    if !rep.failed() {
        let cases = cfg.tier.pick(1000u32, 10000u32);
        rep.absorb(run_proptest(
            cfg,
            "generated",
            cases,
            g_strategy,
            |g: &G| json!({"gen": g, "inputs": inputs_of(g).0}),
            check,
        ));
    }
    rep.assume("numeric literals of the generators are exactly representable in 6 significant digits");
    rep
}

fn replay(_sub: &str, case: &J) -> CheckResult {
    let mut st = Stats::default();
    if let Some(t) = case["inputs_only"].as_array() {
        let inputs: Vec<String> = t.iter().filter_map(|s| s.as_str().map(String::from)).collect();
        return check_inputs(&inputs, "replay", &mut st);
    }
    let g: G = serde_json::from_value(case["gen"].clone()).map_err(|e| Failure::new("harness", e.to_string()))?;
    check(&g, &mut st)
}

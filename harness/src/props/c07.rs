//! C07 — incremental, batched and replayed sessions agree; copies evolve independently.

use super::c17::session_digest;
use super::sessgen::*;
use crate::engine::*;
use crate::session::*;
use crate::PropDef;
use numbat::command::{CommandControlFlow, CommandRunner};
use numbat::session_history::SessionHistory;
use proptest::prelude::*;
use serde::{Deserialize, Serialize};
use serde_json::{Value as J, json};
use std::collections::BTreeMap;
use std::sync::atomic::{AtomicU64, Ordering};

pub fn def() -> PropDef {
    PropDef {
        id: "C07",
        run,
        replay,
    }
}

#[derive(Clone, Debug, Serialize, Deserialize)]
pub struct Case {
    pub ins: Vec<Ins>,
    /// chunk boundaries: bit i set = a new input starts before instruction i+1
    pub split: u32,
    /// clone point (index into the inputs) and the alternative continuation
    pub clone_at: u8,
    pub alt: Vec<Ins>,
    /// failing lines interleaved for the save filter: (position, kind)
    pub failing: Vec<(u8, Fail)>,
    /// pad saved lines with whitespace
    pub pad: bool,
    /// odd: the copy runs the original's continuation without its unit definitions instead
    /// of `alt` (both sessions then show values of the same units, one of them has names)
    #[serde(default)]
    pub alt_mode: u8,
}

fn case_strategy() -> impl Strategy<Value = Case> {
    (
        proptest::collection::vec(ins_strategy(), 3..22),
        any::<u32>(),
        any::<u8>(),
        proptest::collection::vec(ins_strategy(), 1..6),
        proptest::collection::vec((any::<u8>(), fail_strategy()), 0..3),
        any::<bool>(),
        0u8..2,
        proptest::option::weighted(0.35, (any::<u8>(), 0u8..4)),
    )
        .prop_map(|(mut ins, split, clone_at, alt, failing, pad, alt_mode, shadow)| {
            // a user definition, then the import of a module that defines the same constant,
            // then a read of it: three consecutive inputs (joined or not by `split`)
            if let Some((pos, which)) = shadow {
                let at = pos as usize % (ins.len() + 1);
                let module = MODULE_NAMES[which as usize % MODULE_NAMES.len()].0 as u16;
                ins.insert(at, Ins::ModRead { which });
                ins.insert(at, Ins::Use { module });
                ins.insert(at, Ins::ModLet { which });
            }
            Case { ins, split, clone_at, alt, failing, pad, alt_mode }
        })
}

fn outcome_key(o: &Outcome) -> String {
    format!("result={:?} error={:?}", o.result_text, o.error.as_ref().map(|e| e.kind.clone()))
}

fn diff(a: &BTreeMap<String, String>, b: &BTreeMap<String, String>, la: &str, lb: &str) -> Option<String> {
    for (k, v) in a {
        match b.get(k) {
            None => return Some(format!("`{k}` exists only in the {la} session")),
            Some(w) if w != v => return Some(format!("`{k}` differs: {la} {v} vs {lb} {w}")),
            _ => {}
        }
    }
    for k in b.keys() {
        if !a.contains_key(k) {
            return Some(format!("`{k}` exists only in the {lb} session"));
        }
    }
    None
}

static SCRATCH: AtomicU64 = AtomicU64::new(0);

struct Run {
    prints: Vec<String>,
    /// displayed result of every input (None for inputs without a value)
    results: Vec<Option<String>>,
    digest: BTreeMap<String, String>,
}

fn run_inputs(inputs: &[String], what: &str) -> Result<(numbat::Context, Run), Failure> {
    let mut ctx = prelude();
    let mut prints = vec![];
    let mut results = vec![];
    for (i, src) in inputs.iter().enumerate() {
        let o = eval(&mut ctx, src);
        if let Some((loc, msg)) = &o.panic {
            return Err(Failure::new(format!("panic:{loc}"), format!("{what} input {i} `{src}` panicked at {loc}: {msg}")));
        }
        if !o.ok() {
            return Err(Failure::new(
                format!("input-fails:{what}"),
                format!("{what}: input {i} fails: {}\n{src}", o.summary()),
            ));
        }
        prints.extend(o.prints.iter().cloned());
        results.push(o.result_text.clone());
    }
    let digest = session_digest(&ctx);
    Ok((ctx, Run { prints, results, digest }))
}

fn check(c: &Case, st: &mut Stats) -> CheckResult {
    st.eval();
    // render
    let mut env = Env::default();
    let lines: Vec<String> = c.ins.iter().map(|i| render_ins(i, &mut env)).collect();
    let hazard = env.fn_value_redefined;
    let early_product = env.early_product;
    let sig = |base: &str| {
        if early_product && base == "batch-differs" {
            format!("{base}:unit-defined-later-in-same-input")
        } else if hazard {
            format!("{base}:function-value-redefined")
        } else {
            base.to_string()
        }
    };
    let desc = || format!("inputs:\n---\n{}\n---", lines.join("\n---\n"));
    // (1) line by line
    let (ctx_a, a) = run_inputs(&lines, "line-by-line").map_err(|f| Failure::new("harness", f.what))?;
    // (2) chunks and all-in-one
    let mut chunks: Vec<String> = vec![];
    // the value of a multi-statement input is the value of its last expression statement
    let mut chunk_results: Vec<Option<String>> = vec![];
    for (i, l) in lines.iter().enumerate() {
        if i == 0 || (c.split >> ((i - 1) % 32)) & 1 == 1 {
            chunks.push(l.clone());
            chunk_results.push(a.results[i].clone());
        } else {
            if a.results[i].is_some() {
                *chunk_results.last_mut().unwrap() = a.results[i].clone();
            }
            let last = chunks.last_mut().unwrap();
            last.push('\n');
            last.push_str(l);
        }
    }
    let joined = vec![lines.join("\n")];
    let joined_results = vec![a.results.iter().rev().find(|r| r.is_some()).cloned().flatten()];
    for (what, inputs, want_results) in [("chunked", &chunks, &chunk_results), ("joined", &joined, &joined_results)] {
        let (_, b) = match run_inputs(inputs, what) {
            Ok(x) => x,
            Err(f) if f.signature.starts_with("panic:") => return Err(f),
            Err(f) => return Err(Failure::new(sig("batch-differs"), format!("{}; {}", f.what, desc()))),
        };
        if a.prints != b.prints {
            return Err(Failure::new(
                sig("batch-differs"),
                format!("printed output differs between line-by-line and {what}: {:?} vs {:?}; {}", a.prints, b.prints, desc()),
            ));
        }
        if &b.results != want_results {
            return Err(Failure::new(
                sig("batch-differs"),
                format!("results differ between line-by-line and {what}: expected {:?}, got {:?}; {}", want_results, b.results, desc()),
            ));
        }
        if let Some(d) = diff(&a.digest, &b.digest, "line-by-line", what) {
            return Err(Failure::new(sig("batch-differs"), format!("{d}; {}", desc())));
        }
    }
    if chunks.len() >= 2 && chunks.len() < lines.len() {
        st.label("split-into-chunks");
    }
    // (3) save + replay
    {
        let mut ctx = prelude();
        let mut runner: CommandRunner<()> = CommandRunner::new().print_with(|_| {}).enable_save(SessionHistory::new());
        let mut fails = c.failing.clone();
        fails.sort_by_key(|f| f.0);
        let mut expected_saved: Vec<String> = vec![];
        let mut env2 = Env::default();
        for (i, l) in lines.iter().enumerate() {
            for (pos, kind) in &fails {
                if (*pos as usize) % lines.len() == i {
                    let (text, _) = render_fail(*kind, &mut env2);
                    let o = eval(&mut ctx, &text);
                    runner.push_to_history(&text, if o.ok() { Ok(()) } else { Err(()) });
                    if o.ok() {
                        return Err(Failure::new("harness", format!("failing line succeeded: {text}")));
                    }
                    st.label("failing-line-in-history");
                }
            }
            let shown = if c.pad { format!("  {l}  ") } else { l.clone() };
            match runner.try_run_command(&shown, &mut ctx, &mut ()) {
                Ok(CommandControlFlow::NotACommand) => {}
                other => return Err(Failure::new("harness", format!("`{shown}` was taken for a command: {other:?}"))),
            }
            let o = eval(&mut ctx, &shown);
            runner.push_to_history(&shown, if o.ok() { Ok(()) } else { Err(()) });
            if o.ok() {
                expected_saved.push(l.trim().to_string());
            }
        }
        let dir = format!("{}/target/scratch", verif_dir());
        let _ = std::fs::create_dir_all(&dir);
        let path = format!("{dir}/hist-{}-{}.nbt", std::process::id(), SCRATCH.fetch_add(1, Ordering::Relaxed));
        let r = runner.try_run_command(&format!("save {path}"), &mut ctx, &mut ());
        if !matches!(r, Ok(CommandControlFlow::Continue)) {
            let _ = std::fs::remove_file(&path);
            return Err(Failure::new("save-command-fails", format!("`save {path}` gave {r:?}")));
        }
        let saved = std::fs::read_to_string(&path).unwrap_or_default();
        let _ = std::fs::remove_file(&path);
        let want: String = expected_saved.iter().map(|l| format!("{l}\n")).collect();
        if saved != want {
            return Err(Failure::new(
                "saved-history-wrong",
                format!("`save` wrote\n{saved}\nexpected exactly the trimmed successful inputs\n{want}"),
            ));
        }
        let (_, d) = match run_inputs(&[saved.clone()], "replayed") {
            Ok(x) => x,
            Err(f) if f.signature.starts_with("panic:") => return Err(f),
            Err(f) => return Err(Failure::new(sig("replay-differs"), format!("{}; {}", f.what, desc()))),
        };
        if a.prints != d.prints {
            return Err(Failure::new(sig("replay-differs"), format!("replayed history prints {:?}, the session printed {:?}; {}", d.prints, a.prints, desc())));
        }
        if let Some(x) = diff(&a.digest, &d.digest, "original", "replayed") {
            return Err(Failure::new(sig("replay-differs"), format!("{x}; {}", desc())));
        }
    }
    // (4) a copied session evolves independently
    {
        let k = (c.clone_at as usize) % lines.len();
        let mut env_p = Env::default();
        let prefix: Vec<String> = c.ins[..k].iter().map(|i| render_ins(i, &mut env_p)).collect();
        let mut env_rest = env_p.clone();
        let rest: Vec<String> = c.ins[k..].iter().map(|i| render_ins(i, &mut env_rest)).collect();
        let mut env_alt = env_p.clone();
        let alt_ins: Vec<Ins> = if c.alt_mode % 2 == 1 {
            c.ins[k..].iter().filter(|i| !matches!(i, Ins::ProductUnit { .. } | Ins::Unit { .. } | Ins::BaseUnit)).cloned().collect()
        } else {
            c.alt.clone()
        };
        let alt: Vec<String> = alt_ins.iter().map(|i| render_ins(i, &mut env_alt)).collect();
        let (mut orig, prefix_run) = run_inputs(&prefix, "prefix").map_err(|f| Failure::new("harness", f.what))?;
        let mut copy = orig.clone();
        // interleave the two continuations
        let n = rest.len().max(alt.len());
        let (mut orig_out, mut copy_out): (Vec<(Option<String>, Vec<String>)>, Vec<(Option<String>, Vec<String>)>) = (vec![], vec![]);
        for i in 0..n {
            if let Some(l) = rest.get(i) {
                let o = eval(&mut orig, l);
                if !o.ok() {
                    return Err(Failure::new(sig("copy-not-independent"), format!("original session: `{l}` fails after the copy ran other inputs: {}", o.summary())));
                }
                orig_out.push((o.result_text.clone(), o.prints.clone()));
            }
            if let Some(l) = alt.get(i) {
                let o = eval(&mut copy, l);
                if !o.ok() {
                    return Err(Failure::new(sig("copy-not-independent"), format!("copied session: `{l}` fails: {}", o.summary())));
                }
                copy_out.push((o.result_text.clone(), o.prints.clone()));
            }
        }
        // never-cloned references
        let mut ref_alt_inputs = prefix.clone();
        ref_alt_inputs.extend(alt.iter().cloned());
        let (_, ref_alt) = run_inputs(&ref_alt_inputs, "reference").map_err(|f| Failure::new("harness", f.what))?;
        // every result and print of the two continuations equals the never-copied runs
        if prefix.len() + rest.len() == lines.len() && prefix.iter().chain(rest.iter()).eq(lines.iter()) {
            let want_results = &a.results[k..];
            let got_results: Vec<Option<String>> = orig_out.iter().map(|o| o.0.clone()).collect();
            let want_prints = &a.prints[prefix_run.prints.len().min(a.prints.len())..];
            let got_prints: Vec<String> = orig_out.iter().flat_map(|o| o.1.clone()).collect();
            if want_results != got_results.as_slice() || want_prints != got_prints.as_slice() {
                return Err(Failure::new(
                    sig("copy-not-independent"),
                    format!("the original session, continued while its copy ran other inputs, shows {got_results:?} / prints {got_prints:?}; a never-copied session shows {want_results:?} / {want_prints:?}; prefix {k} inputs, alt:\n{}\n{}", alt.join("\n"), desc()),
                ));
            }
        }
        {
            let want_results = &ref_alt.results[k..];
            let got_results: Vec<Option<String>> = copy_out.iter().map(|o| o.0.clone()).collect();
            let want_prints = &ref_alt.prints[prefix_run.prints.len().min(ref_alt.prints.len())..];
            let got_prints: Vec<String> = copy_out.iter().flat_map(|o| o.1.clone()).collect();
            if want_results != got_results.as_slice() || want_prints != got_prints.as_slice() {
                return Err(Failure::new(
                    sig("copy-not-independent"),
                    format!("the copied session shows {got_results:?} / prints {got_prints:?}; a never-copied session with the same inputs shows {want_results:?} / {want_prints:?}; prefix {k} inputs, alt:\n{}\n{}", alt.join("\n"), desc()),
                ));
            }
        }
        if let Some(x) = diff(&session_digest(&orig), &a.digest, "original-after-copy", "never-copied") {
            return Err(Failure::new(sig("copy-not-independent"), format!("{x}; prefix {k} inputs, alt:\n{}\n{}", alt.join("\n"), desc())));
        }
        if let Some(x) = diff(&session_digest(&copy), &ref_alt.digest, "copy", "never-copied") {
            return Err(Failure::new(sig("copy-not-independent"), format!("{x}; prefix {k} inputs, alt:\n{}\n{}", alt.join("\n"), desc())));
        }
        let _ = ctx_a;
    }
    if hazard {
        st.label("function-value-redefined-later");
    }
    if env.redefinitions > 0 {
        st.label("has-redefinition");
    }
    if (env.redefinitions > 0 || lines.iter().any(|l| l.starts_with("ans") || l.starts_with('_'))) && chunks.len() >= 2 && env.all_names().len() >= 3 {
        st.nontrivial_with_sample(hash_str(&lines.join("\n")), || json!({"inputs": lines, "chunks": chunks.len()}));
    }
    Ok(())
}

fn run(cfg: &Cfg) -> Report {
    let mut rep = Report::new(
        cfg,
        "proptest histories of 3-21 successful inputs (typed definitions, redefinitions/shadowing of variables and functions, generic functions, function values through map, units, units that are exact products of base units and expressions of those products, dimensions, structs, imports, expressions, expressions whose simplification changes the unit, prints, six kinds of uses of ans/_ that expose the unit held) with a random partition into chunks, a random clone point with an alternative continuation, and 0-2 failing lines for the save filter. Oracle: (1) line-by-line vs (2) chunked and all-joined: same concatenated print output, same last result, same definition digest (function signatures, units, dimensions, raw values of all variables); (3) CommandRunner + `save`: the file holds exactly the trimmed successful inputs in order and replaying it in a fresh session reproduces prints and digest; (4) a cloned session continued differently (a random continuation, or the original's continuation without its unit definitions; interleaved with the original) shows the same results and prints input by input and ends with the same definition digest as a never-cloned session with the same inputs, and so does the original. non-trivial = contains a redefinition or ans/_, is split into >= 2 chunks and defines >= 3 names; distinct = rendered history",
    );
    let cases = cfg.tier.pick(400u32, 5000u32);
    rep.absorb(run_proptest(
        cfg,
        "histories",
        cases,
        case_strategy,
        |c: &Case| {
            let mut env = Env::default();
            let lines: Vec<String> = c.ins.iter().map(|i| render_ins(i, &mut env)).collect();
            json!({"case": c, "rendered": lines})
        },
        check,
    ));
    rep
}

fn replay(_sub: &str, case: &J) -> CheckResult {
    let c: Case = serde_json::from_value(case["case"].clone()).map_err(|e| Failure::new("harness", e.to_string()))?;
    check(&c, &mut Stats::default())
}

//! C17 — standard-library modules compose in any order.

use crate::engine::*;
use crate::gen_util::*;
use crate::session::*;
use crate::PropDef;
use numbat::module_importer::{BuiltinModuleImporter, ModuleImporter};
use numbat::resolver::CodeSource;
use proptest::prelude::*;
use serde_json::{Value as J, json};
use std::collections::{BTreeMap, BTreeSet};

pub fn def() -> PropDef {
    PropDef {
        id: "C17",
        run,
        replay,
    }
}

pub fn module_list() -> Vec<String> {
    let ctx = fresh_context();
    let mut v: Vec<String> = ctx.list_modules().map(|m| m.to_string()).collect();
    v.sort();
    v.dedup();
    v
}

/// Direct `use` dependencies of every module, read from the module sources.
fn module_deps(modules: &[String]) -> BTreeMap<String, BTreeSet<String>> {
    let importer = BuiltinModuleImporter::default();
    let mut deps = BTreeMap::new();
    for path in importer.list_modules() {
        let name = path.to_string();
        if !modules.contains(&name) {
            continue;
        }
        let mut d = BTreeSet::new();
        if let Some((code, _)) = importer.import(&path) {
            for line in code.lines() {
                let line = line.trim();
                if let Some(rest) = line.strip_prefix("use ") {
                    let m: String = rest
                        .chars()
                        .take_while(|c| c.is_alphanumeric() || *c == '_' || *c == ':')
                        .collect();
                    d.insert(m);
                }
            }
        }
        deps.insert(name, d);
    }
    deps
}

fn closure(deps: &BTreeMap<String, BTreeSet<String>>, m: &str) -> BTreeSet<String> {
    let mut seen = BTreeSet::new();
    let mut stack = vec![m.to_string()];
    while let Some(x) = stack.pop() {
        if let Some(ds) = deps.get(&x) {
            for d in ds {
                if seen.insert(d.clone()) {
                    stack.push(d.clone());
                }
            }
        }
    }
    seen
}

/// Everything observable about the definitions of a session, in an order-independent form.
pub fn session_digest(ctx: &numbat::Context) -> BTreeMap<String, String> {
    let mut d = BTreeMap::new();
    for f in ctx.functions() {
        d.insert(format!("fn:{}", f.fn_name), f.signature_str.to_string());
    }
    for u in ctx.verif_unit_definitions() {
        d.insert(
            format!("unit:{}", u.name),
            format!(
                "base={} factor={:?} defining={:?} aliases={:?} metric={} binary={} canonical={} type={:?}",
                u.is_base,
                u.factor,
                u.defining
                    .iter()
                    .map(|f| format!("{:?}{}^{:?}", f.prefix, f.unit, f.exponent))
                    .collect::<Vec<_>>(),
                {
                    let mut a = u.aliases.clone();
                    a.sort();
                    a
                },
                u.metric_prefixes,
                u.binary_prefixes,
                u.canonical_name,
                u.type_base_repr
            ),
        );
    }
    for dim in ctx.dimension_names() {
        d.insert(
            format!("dim:{dim}"),
            format!("{:?}", ctx.verif_dimension_base_repr(dim)),
        );
    }
    let mut names: Vec<String> = ctx.variable_names().map(|s| s.to_string()).collect();
    names.sort();
    names.dedup();
    for n in names {
        let raw = ctx.verif_raw_global(&n);
        d.insert(format!("var:{n}"), format!("{raw:?}"));
    }
    d
}

fn import_all(order: &[String]) -> Result<numbat::Context, Failure> {
    let mut ctx = fresh_context();
    let opts = EvalOpts {
        render_diagnostics: false,
        source: CodeSource::Internal,
    };
    for m in order {
        let o = eval_with(&mut ctx, &format!("use {m}"), &opts);
        if let Some((loc, msg)) = &o.panic {
            return Err(Failure::new(
                format!("panic:{loc}"),
                format!("`use {m}` (order {order:?}) panicked at {loc}: {msg}"),
            ));
        }
        if !o.ok() {
            return Err(Failure::new(
                "import-fails",
                format!("`use {m}` fails in order {order:?}: {}", o.summary()),
            ));
        }
    }
    Ok(ctx)
}

fn diff(a: &BTreeMap<String, String>, b: &BTreeMap<String, String>) -> Option<String> {
    for (k, v) in a {
        match b.get(k) {
            None => return Some(format!("`{k}` exists only in the first order")),
            Some(w) if w != v => return Some(format!("`{k}` differs: {v} vs {w}")),
            _ => {}
        }
    }
    for k in b.keys() {
        if !a.contains_key(k) {
            return Some(format!("`{k}` exists only in the second order"));
        }
    }
    None
}

#[derive(Clone, Debug)]
struct Case {
    order_a: Vec<String>,
    order_b: Vec<String>,
    independent: bool,
}

fn case_json(c: &Case) -> J {
    json!({"order_a": c.order_a, "order_b": c.order_b, "independent": c.independent})
}

fn check(c: &Case, st: &mut Stats) -> CheckResult {
    st.eval();
    let ctx_a = import_all(&c.order_a)?;
    let da = session_digest(&ctx_a);
    let ctx_b = import_all(&c.order_b)?;
    let db = session_digest(&ctx_b);
    if let Some(d) = diff(&da, &db) {
        return Err(Failure::new(
            "order-dependent",
            format!("orders {:?} and {:?}: {d}", c.order_a, c.order_b),
        ));
    }
    // repeated imports change nothing
    let mut ctx_r = ctx_a.clone();
    let opts = EvalOpts {
        render_diagnostics: false,
        source: CodeSource::Internal,
    };
    for m in c.order_a.iter().rev() {
        let o = eval_with(&mut ctx_r, &format!("use {m}"), &opts);
        if !o.ok() {
            return Err(Failure::new(
                "reimport-fails",
                format!("re-importing {m} after {:?} fails: {}", c.order_a, o.summary()),
            ));
        }
    }
    let dr = session_digest(&ctx_r);
    if let Some(d) = diff(&da, &dr) {
        return Err(Failure::new(
            "reimport-changes-session",
            format!("re-importing {:?}: {d}", c.order_a),
        ));
    }
    if c.independent {
        st.label("independent-modules");
        st.nontrivial_with_sample(hash_str(&format!("{:?}|{:?}", c.order_a, c.order_b)), || {
            json!({"order_a": c.order_a, "order_b": c.order_b, "definitions_compared": da.len()})
        });
    } else {
        st.label("dependency-related");
    }
    Ok(())
}

fn run(cfg: &Cfg) -> Report {
    let mut rep = Report::new(
        cfg,
        "all ordered pairs of standard-library modules (each unordered pair imported in both orders into fresh sessions and compared; complete enumeration) plus random subsets of 3-15 modules in two random orders; compared: every function signature, unit definition/metadata, dimension, and the raw value of every variable; re-importing every module must change nothing. non-trivial = the modules are not related by a `use` chain (so the order is a real choice); distinct = the pair of orders",
    );
    let modules = module_list();
    let deps = module_deps(&modules);
    let closures: BTreeMap<String, BTreeSet<String>> = modules
        .iter()
        .map(|m| (m.clone(), closure(&deps, m)))
        .collect();
    let independent = |a: &str, b: &str| -> bool {
        !closures.get(a).map(|c| c.contains(b)).unwrap_or(false)
            && !closures.get(b).map(|c| c.contains(a)).unwrap_or(false)
    };
    rep.extra("modules", json!(modules.len()));
    let mut pairs = vec![];
    for i in 0..modules.len() {
        for j in (i + 1)..modules.len() {
            pairs.push(Case {
                order_a: vec![modules[i].clone(), modules[j].clone()],
                order_b: vec![modules[j].clone(), modules[i].clone()],
                independent: independent(&modules[i], &modules[j]),
            });
        }
    }
    rep.extra("ordered_pairs", json!(pairs.len() * 2));
    rep.exhaustive = Some(true);
    rep.absorb(run_enumerated(cfg, "pairs", &pairs, case_json, check));
    if !rep.failed() {
        let cases = cfg.tier.pick(60u32, 600u32);
        let n = modules.len();
        let mods = modules.clone();
        let closures2 = closures.clone();
        rep.absorb(run_proptest(
            cfg,
            "subsets",
            cases,
            move || {
                (
                    proptest::collection::vec(idx(), 3..15),
                    any::<u64>(),
                    any::<u64>(),
                )
            },
            {
                let mods = mods.clone();
                move |c: &(Vec<u16>, u64, u64)| json!({"subset": subset(&mods, &c.0), "perm_a": c.1, "perm_b": c.2})
            },
            {
                let mods = mods.clone();
                move |c: &(Vec<u16>, u64, u64), st: &mut Stats| {
                    let s = subset(&mods, &c.0);
                    let a = permute(&s, c.1);
                    let b = permute(&s, c.2);
                    let indep = a != b
                        && s.iter().any(|x| {
                            s.iter().any(|y| {
                                x != y
                                    && !closures2[x].contains(y)
                                    && !closures2[y].contains(x)
                            })
                        });
                    check(
                        &Case {
                            order_a: a,
                            order_b: b,
                            independent: indep,
                        },
                        st,
                    )
                }
            },
        ));
        let _ = n;
    }
    rep.assume("test exchange rates are installed for units::currencies; module dependencies are read from `use` lines of the module sources");
    rep
}

fn subset(mods: &[String], raw: &[u16]) -> Vec<String> {
    let mut s: Vec<String> = vec![];
    for r in raw {
        let m = mods[pick_idx(*r, mods.len())].clone();
        if !s.contains(&m) {
            s.push(m);
        }
    }
    s
}

fn permute(s: &[String], seed: u64) -> Vec<String> {
    let mut v = s.to_vec();
    let mut x = seed;
    for i in (1..v.len()).rev() {
        x = splitmix64(x);
        let j = (x % (i as u64 + 1)) as usize;
        v.swap(i, j);
    }
    v
}

fn replay(sub: &str, case: &J) -> CheckResult {
    let strs = |j: &J| -> Vec<String> {
        j.as_array()
            .map(|a| a.iter().filter_map(|s| s.as_str().map(String::from)).collect())
            .unwrap_or_default()
    };
    let c = if sub == "subsets" {
        let s = strs(&case["subset"]);
        Case {
            order_a: permute(&s, case["perm_a"].as_u64().unwrap_or(0)),
            order_b: permute(&s, case["perm_b"].as_u64().unwrap_or(0)),
            independent: true,
        }
    } else {
        Case {
            order_a: strs(&case["order_a"]),
            order_b: strs(&case["order_b"]),
            independent: true,
        }
    };
    check(&c, &mut Stats::default())
}

//! C21 — assertions decide exactly their documented predicate.

use super::pairs::*;
use crate::engine::*;
use crate::gen_util::*;
use crate::refmodel::units::*;
use crate::session::*;
use crate::PropDef;
use proptest::prelude::*;
use serde::{Deserialize, Serialize};
use serde_json::{Value as J, json};

pub fn def() -> PropDef {
    PropDef {
        id: "C21",
        run,
        replay,
    }
}

#[derive(Clone, Debug, Serialize, Deserialize)]
struct Case {
    /// the assertion statement
    stmt: String,
    /// statements before the assertion in the same input (may define xx_a etc.)
    setup: String,
    expect_success: bool,
    /// AssertFailed / AssertEq2Failed / AssertEq3Failed
    fail_kind: String,
    class: String,
    nontrivial: bool,
}

fn check(c: &Case, st: &mut Stats) -> CheckResult {
    st.eval();
    let mut ctx = prelude();
    let code = format!(
        "{}print(\"before\")\n{}\nprint(\"after\")\nlet xx_marker = 42\nprint(\"end\")",
        c.setup, c.stmt
    );
    let o = eval(&mut ctx, &code);
    if let Some((loc, msg)) = &o.panic {
        return Err(Failure::new(format!("panic:{loc}"), format!("{code}: panic {msg}")));
    }
    let marker = eval(&mut ctx, "xx_marker");
    let desc = format!("`{}` (setup: {}; class {})", c.stmt, c.setup.replace('\n', "; "), c.class);
    if c.expect_success {
        if !o.ok() {
            return Err(Failure::new(
                "assertion-fails-but-predicate-holds",
                format!("{desc} should succeed but: {}", o.summary()),
            ));
        }
        if o.prints != ["before", "after", "end"] || !marker.ok() {
            return Err(Failure::new(
                "statements-after-successful-assertion-did-not-run",
                format!("{desc}: prints {:?}, marker {}", o.prints, marker.summary()),
            ));
        }
    } else {
        if o.ok() {
            return Err(Failure::new(
                "assertion-succeeds-but-predicate-fails",
                format!("{desc} should fail but the input succeeded"),
            ));
        }
        let kind = o.err_kind().unwrap_or("");
        if kind != c.fail_kind {
            return Err(Failure::new(
                "wrong-failure-kind",
                format!("{desc} should fail with {} but: {}", c.fail_kind, o.summary()),
            ));
        }
        if o.prints.iter().any(|p| p == "after" || p == "end") {
            return Err(Failure::new(
                "statement-after-failed-assertion-ran",
                format!("{desc}: a later statement of the same input printed: {:?}", o.prints),
            ));
        }
        if marker.ok() {
            return Err(Failure::new(
                "statement-after-failed-assertion-ran",
                format!("{desc}: the definition after the failed assertion exists"),
            ));
        }
    }
    st.label(&format!("class:{}", c.class));
    st.label(if c.expect_success { "expected:success" } else { "expected:failure" });
    if c.nontrivial {
        st.nontrivial_with_sample(hash_str(&code), || json!({"assertion": c.stmt, "setup": c.setup, "succeeds": c.expect_success}));
    }
    Ok(())
}

// ------------------------------------------------------------------------------------------
// generation
// ------------------------------------------------------------------------------------------

#[derive(Clone, Debug, Serialize, Deserialize)]
enum B {
    Lit(bool),
    Cmp(i8, i8, u8),
    Not(Box<B>),
    And(Box<B>, Box<B>),
    Or(Box<B>, Box<B>),
}

fn bool_strategy() -> impl Strategy<Value = B> {
    let leaf = prop_oneof![
        any::<bool>().prop_map(B::Lit),
        (-5i8..6, -5i8..6, 0u8..6).prop_map(|(a, b, o)| B::Cmp(a, b, o)),
    ];
    leaf.prop_recursive(3, 12, 2, |inner| {
        prop_oneof![
            inner.clone().prop_map(|a| B::Not(Box::new(a))),
            (inner.clone(), inner.clone()).prop_map(|(a, b)| B::And(Box::new(a), Box::new(b))),
            (inner.clone(), inner).prop_map(|(a, b)| B::Or(Box::new(a), Box::new(b))),
        ]
    })
}

fn render_bool(b: &B) -> (String, bool) {
    match b {
        B::Lit(v) => (v.to_string(), *v),
        B::Cmp(a, c, o) => {
            let (op, v) = match o % 6 {
                0 => ("<", a < c),
                1 => ("<=", a <= c),
                2 => (">", a > c),
                3 => (">=", a >= c),
                4 => ("==", a == c),
                _ => ("!=", a != c),
            };
            (format!("(({a}) {op} ({c}))"), v)
        }
        B::Not(a) => {
            let (s, v) = render_bool(a);
            (format!("!({s})"), !v)
        }
        B::And(a, c) => {
            let (sa, va) = render_bool(a);
            let (sc, vc) = render_bool(c);
            (format!("({sa} && {sc})"), va && vc)
        }
        B::Or(a, c) => {
            let (sa, va) = render_bool(a);
            let (sc, vc) = render_bool(c);
            (format!("({sa} || {sc})"), va || vc)
        }
    }
}

#[derive(Clone, Debug, Serialize, Deserialize)]
enum G {
    Assert(B),
    /// same unit, small dyadic values: exact
    Eq2Exact { unit: u16, a: i16, b: i16, quarter: bool },
    /// different units; b = a's quantity scaled by `scale` (1 = b obtained by numbat's own conversion)
    Eq2Units { ua: u16, ub: u16, salt: u32, a: u16, scale: u8 },
    Eq2Other { kind: u8, equal: bool },
    /// all three in the same unit, exact dyadic arithmetic: |a-b| vs eps including the boundary
    Eq3Exact { unit: u16, a: i16, d: u8, eps: u8, neg: bool },
    /// a, b, eps in three units of one dimension; |a-b| and eps separated by a factor
    Eq3Units { ua: u16, ub: u16, ue: u16, salt: u32, a: u16, ratio: u8 },
    Nan { three: bool, unit: u16 },
}

fn g_strategy() -> impl Strategy<Value = G> {
    prop_oneof![
        3 => bool_strategy().prop_map(G::Assert),
        3 => (idx(), -50i16..50, -50i16..50, any::<bool>()).prop_map(|(unit, a, b, quarter)| G::Eq2Exact { unit, a, b, quarter }),
        4 => (idx(), idx(), any::<u32>(), idx(), 0u8..6).prop_map(|(ua, ub, salt, a, scale)| G::Eq2Units { ua, ub, salt, a, scale }),
        2 => (0u8..5, any::<bool>()).prop_map(|(kind, equal)| G::Eq2Other { kind, equal }),
        4 => (idx(), -50i16..50, 0u8..9, 0u8..9, any::<bool>()).prop_map(|(unit, a, d, eps, neg)| G::Eq3Exact { unit, a, d, eps, neg }),
        4 => (idx(), idx(), idx(), any::<u32>(), idx(), 0u8..6).prop_map(|(ua, ub, ue, salt, a, ratio)| G::Eq3Units { ua, ub, ue, salt, a, ratio }),
        2 => (any::<bool>(), idx()).prop_map(|(three, unit)| G::Nan { three, unit }),
    ]
}

fn build(g: &G) -> Case {
    let cat = prelude_catalogue();
    let n = cat.units.len();
    let pairs = cat.same_dimension_pairs();
    match g {
        G::Assert(b) => {
            let (s, v) = render_bool(b);
            Case {
                stmt: format!("assert({s})"),
                setup: String::new(),
                expect_success: v,
                fail_kind: "AssertFailed".into(),
                class: "assert".into(),
                nontrivial: !matches!(b, B::Lit(_)),
            }
        }
        G::Eq2Exact { unit, a, b, quarter } => {
            let u = spelling(&cat, pick_idx(*unit, n), *unit as u64);
            let q = if *quarter { 0.25 } else { 1.0 };
            let (x, y) = (*a as f64 * q, *b as f64 * q);
            Case {
                stmt: format!("assert_eq({} {}, {} {})", lit(x), u.ident, lit(y), u.ident),
                setup: String::new(),
                expect_success: x == y,
                fail_kind: "AssertEq2Failed".into(),
                class: "eq2-same-unit".into(),
                nontrivial: false,
            }
        }
        G::Eq2Units { ua, ub: _, salt, a, scale } => {
            let (pa, pb) = pairs[pick_idx(*ua, pairs.len())];
            let sa = spelling(&cat, pa, *salt as u64);
            let sb = spelling(&cat, pb, (*salt as u64) << 1);
            let x = pseudo_mag(*a as u64);
            let scales = [1.0, 0.5, 2.0, 1.001, 0.999, -1.0];
            let sc = scales[*scale as usize % 6];
            let setup = format!("let xx_a = {} {}\n", lit(x), sa.ident);
            if sc == 1.0 {
                // b is a converted into ub by numbat: converting a to b's unit again must give b
                Case {
                    stmt: "assert_eq(xx_a, xx_b)".into(),
                    setup: format!("{setup}let xx_b = xx_a -> {}\n", sb.ident),
                    expect_success: true,
                    fail_kind: "AssertEq2Failed".into(),
                    class: "eq2-converted".into(),
                    nontrivial: true,
                }
            } else {
                let y = x * sa.factor / sb.factor * sc;
                Case {
                    stmt: format!("assert_eq(xx_a, {} {})", lit(y), sb.ident),
                    setup,
                    expect_success: false,
                    fail_kind: "AssertEq2Failed".into(),
                    class: "eq2-different-units-unequal".into(),
                    nontrivial: true,
                }
            }
        }
        G::Eq2Other { kind, equal } => {
            let (l, r) = match (kind % 5, equal) {
                (0, true) => ("\"abc\"", "\"abc\""),
                (0, false) => ("\"abc\"", "\"abd\""),
                (1, true) => ("true", "true"),
                (1, false) => ("true", "false"),
                (2, true) => ("[1 m, 2 m]", "[1 m, 2 m]"),
                (2, false) => ("[1 m, 2 m]", "[1 m, 3 m]"),
                (3, true) => ("[1, 2, 3]", "cons(1, [2, 3])"),
                (3, false) => ("[1, 2, 3]", "[1, 2]"),
                (_, true) => ("\"x = {1 + 1}\"", "\"x = 2\""),
                (_, false) => ("\"x = {1 + 1}\"", "\"x = 3\""),
            };
            Case {
                stmt: format!("assert_eq({l}, {r})"),
                setup: String::new(),
                expect_success: *equal,
                fail_kind: "AssertEq2Failed".into(),
                class: "eq2-non-quantity".into(),
                nontrivial: true,
            }
        }
        G::Eq3Exact { unit, a, d, eps, neg } => {
            let u = spelling(&cat, pick_idx(*unit, n), *unit as u64 ^ 7);
            // dyadic steps of 1/8: all sums and differences are exact
            let x = *a as f64 / 8.0;
            let diff = *d as f64 / 8.0;
            let y = if *neg { x - diff } else { x + diff };
            let e = *eps as f64 / 8.0;
            Case {
                stmt: format!("assert_eq({} {}, {} {}, {} {})", lit(x), u.ident, lit(y), u.ident, lit(e), u.ident),
                setup: String::new(),
                expect_success: diff <= e,
                fail_kind: "AssertEq3Failed".into(),
                class: if diff == e { "eq3-boundary".into() } else { "eq3-same-unit".into() },
                nontrivial: diff == e,
            }
        }
        G::Eq3Units { ua, ub: _, ue, salt, a, ratio } => {
            let (pa, pb) = pairs[pick_idx(*ua, pairs.len())];
            let group = cat.groups.iter().find(|g| g.contains(&pa)).unwrap();
            let pe = group[pick_idx(*ue, group.len())];
            let sa = spelling(&cat, pa, *salt as u64);
            let sb = spelling(&cat, pb, (*salt as u64) << 1);
            let se = spelling(&cat, pe, (*salt as u64) << 2);
            let x = pseudo_mag(*a as u64);
            // b differs from a by 10 % of a (physically); eps is that difference times a ratio
            let phys_a = x * sa.factor;
            let phys_b = phys_a * 1.1;
            let y = phys_b / sb.factor;
            let ratios = [0.5, 0.9, 1.1, 2.0, 0.01, 100.0];
            let r = ratios[*ratio as usize % 6];
            let eps = (phys_b - phys_a).abs() * r / se.factor;
            Case {
                stmt: format!("assert_eq({} {}, {} {}, {} {})", lit(x), sa.ident, lit(y), sb.ident, lit(eps), se.ident),
                setup: String::new(),
                expect_success: r > 1.0,
                fail_kind: "AssertEq3Failed".into(),
                class: "eq3-different-units".into(),
                nontrivial: true,
            }
        }
        G::Nan { three, unit } => {
            let u = spelling(&cat, pick_idx(*unit, n), *unit as u64 ^ 9);
            // infinities: equal ones are equal (two-argument form succeeds), their difference is
            // NaN (three-argument form fails), opposite ones differ
            let which = (*unit as usize / 7) % 6;
            if which > 0 {
                let (stmt, ok, kind) = match (which, *three) {
                    (1, false) => (format!("assert_eq(inf {0}, inf {0})", u.ident), true, "AssertEq2Failed"),
                    (2, false) => (format!("assert_eq(-inf {0}, -inf {0})", u.ident), true, "AssertEq2Failed"),
                    (3, false) => (format!("assert_eq(inf {0}, -inf {0})", u.ident), false, "AssertEq2Failed"),
                    (4, false) => (format!("assert_eq(inf {0}, 3 {0})", u.ident), false, "AssertEq2Failed"),
                    (5, false) => (format!("assert_eq(2 * inf {0}, inf {0})", u.ident), true, "AssertEq2Failed"),
                    (1, true) | (2, true) => (format!("assert_eq(inf {0}, inf {0}, 1 {0})", u.ident), false, "AssertEq3Failed"),
                    (3, true) => (format!("assert_eq(1 {0}, inf {0}, 5 {0})", u.ident), false, "AssertEq3Failed"),
                    (4, true) => (format!("assert_eq(-inf {0}, inf {0}, 5 {0})", u.ident), false, "AssertEq3Failed"),
                    _ => (format!("assert_eq(1 {0}, 2 {0}, inf {0})", u.ident), true, "AssertEq3Failed"),
                };
                return Case {
                    stmt,
                    setup: String::new(),
                    expect_success: ok,
                    fail_kind: kind.into(),
                    class: "infinity".into(),
                    nontrivial: true,
                };
            }
            if *three {
                Case {
                    stmt: format!("assert_eq(NaN {0}, 1 {0}, 5 {0})", u.ident),
                    setup: String::new(),
                    expect_success: false,
                    fail_kind: "AssertEq3Failed".into(),
                    class: "nan".into(),
                    nontrivial: true,
                }
            } else {
                Case {
                    stmt: format!("assert_eq(NaN {0}, NaN {0})", u.ident),
                    setup: String::new(),
                    expect_success: false,
                    fail_kind: "AssertEq2Failed".into(),
                    class: "nan".into(),
                    nontrivial: true,
                }
            }
        }
    }
}

fn run(cfg: &Cfg) -> Report {
    let mut rep = Report::new(
        cfg,
        "proptest-generated assertions, each placed between marker statements (`print(\"before\")` / `print(\"after\")`, a definition, `print(\"end\")`) in one input: assert(c) for boolean expression trees with a reference truth value; assert_eq(a,b) for quantities in the same unit (exact dyadic values), in different units (b obtained by numbat's own conversion => must succeed; b scaled by a factor away from 1 => must fail), strings/booleans/lists; assert_eq(a,b,eps) with exact dyadic values including the boundary |a-b| = eps, and with a, b, eps in three different units of one dimension where |a-b| and eps differ by a factor >= 1.1; NaN and infinite operands (equal infinities are equal, their difference is not within any tolerance). Oracle: success iff the documented predicate holds; on failure the error kind is the assertion's, nothing after the assertion ran (no print, the later definition does not exist); on success everything ran. non-trivial = different units, boundary, non-quantity or NaN case; distinct = input text",
    );
    let cases = cfg.tier.pick(8000u32, 60000u32);
    rep.absorb(run_proptest(
        cfg,
        "assertions",
        cases,
        g_strategy,
        |g: &G| json!({"gen": g, "built": build(g)}),
        |g: &G, st| check(&build(g), st),
    ));
    rep.require_label_fraction("class:eq3-boundary", "expected:success", 0.01);
    rep
}

fn replay(_sub: &str, case: &J) -> CheckResult {
    let c: Case = match serde_json::from_value::<G>(case["gen"].clone()) {
        Ok(g) => build(&g),
        Err(_) => serde_json::from_value(case["built"].clone()).map_err(|e| Failure::new("harness", e.to_string()))?,
    };
    check(&c, &mut Stats::default())
}

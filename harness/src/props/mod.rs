use crate::PropDef;

pub mod c17;
pub mod c18;
pub mod c24;

pub fn all() -> Vec<PropDef> {
    vec![c17::def(), c18::def(), c24::def()]
}

//! C19 — date and time arithmetic is consistent.

use crate::engine::*;
use crate::gen_util::*;
use crate::refmodel::units::*;
use crate::session::*;
use crate::PropDef;
use numbat::verif_hooks::VValue;
use proptest::prelude::*;
use serde::{Deserialize, Serialize};
use serde_json::{Value as J, json};

pub fn def() -> PropDef {
    PropDef {
        id: "C19",
        run,
        replay,
    }
}

const ZONES: &[&str] = &[
    "UTC",
    "Europe/Berlin",
    "America/New_York",
    "Asia/Kathmandu",
    "Australia/Lord_Howe",
    "Pacific/Chatham",
    "America/St_Johns",
    "Asia/Tokyo",
    "Africa/Monrovia",
    "Pacific/Apia",
    "Europe/London",
    "America/Sao_Paulo",
    "Asia/Kolkata",
    "Pacific/Kiritimati",
    "Antarctica/Troll",
    "Europe/Dublin",
];

/// (unit source text, seconds per unit)
const TIME_UNITS: &[(&str, f64)] = &[
    ("ns", 1e-9),
    ("µs", 1e-6),
    ("ms", 1e-3),
    ("s", 1.0),
    ("min", 60.0),
    ("hours", 3600.0),
    ("days", 86400.0),
    ("weeks", 604800.0),
    ("fortnights", 1209600.0),
    ("ks", 1e3),
    ("Ms", 1e6),
    ("julian_years", 31557600.0),
    ("centuries", 3155695200.0),
    ("sidereal_day", 86164.0905),
];

// jiff's supported range of instants: -009999-01-02 .. 9999-12-30 (inclusive, roughly)
const MIN_SECS: i64 = -377_705_023_201;
const MAX_SECS: i64 = 253_402_207_200;

#[derive(Clone, Debug, Serialize, Deserialize)]
struct Case {
    secs: i64,
    nanos: u32,
    zone: u16,
    zone2: u16,
    /// duration = mant * 10^exp10 in `unit`
    mant: i32,
    exp10: i8,
    unit: u16,
    /// non-zero: move the instant to the next UTC-offset transition of `zone` after `secs`,
    /// plus this many seconds (gaps, repeated hours)
    #[serde(default)]
    near: i32,
}

/// The instant `delta` seconds after the first offset transition of `zone` that follows `secs`
/// (computed with the harness's own copy of the tz database).
fn snap_to_transition(secs: i64, zone: &str, delta: i32) -> Option<i64> {
    let tz = jiff::tz::TimeZone::get(zone).ok()?;
    let ts = jiff::Timestamp::new(secs, 0).ok()?;
    let t = tz.following(ts).next()?;
    Some(t.timestamp().as_second() + delta as i64)
}

fn case_strategy() -> impl Strategy<Value = Case> {
    let secs = prop_oneof![
        4 => MIN_SECS + 200_000..MAX_SECS - 200_000,
        // contemporary instants incl. DST transitions and leap days
        4 => 0i64..2_000_000_000,
        // the ends of the supported range
        1 => MIN_SECS + 200_000..MIN_SECS + 400_000_000,
        1 => MAX_SECS - 400_000_000..MAX_SECS - 200_000,
    ];
    let nanos = prop_oneof![Just(0u32), 0u32..1_000_000_000, Just(999_999_999u32), Just(500_000_000u32)];
    let near = prop_oneof![3 => Just(0i32), 1 => -7200i32..7200];
    (secs, nanos, idx(), idx(), -99_999i32..100_000, -3i8..7, idx(), near).prop_map(|(secs, nanos, zone, zone2, mant, exp10, unit, near)| Case {
        secs,
        nanos,
        zone,
        zone2,
        mant,
        exp10,
        unit,
        near,
    })
}

fn civil_utc(secs: i64, nanos: u32) -> Option<String> {
    let ts = jiff::Timestamp::new(secs, nanos as i32).ok()?;
    let z = ts.to_zoned(jiff::tz::TimeZone::UTC);
    Some(format!("{}", z.strftime("%Y-%m-%d %H:%M:%S%.9f UTC")))
}

fn ulp(x: f64) -> f64 {
    let x = x.abs().max(f64::MIN_POSITIVE);
    f64::from_bits(x.to_bits() + 1) - x
}

fn scalar(ctx: &numbat::Context, name: &str) -> Option<f64> {
    match ctx.verif_raw_global(name) {
        Some(VValue::Quantity(q)) => {
            let p = prelude_catalogue().physical(&q)?;
            if p.vec.is_scalar() { Some(p.mag) } else { None }
        }
        _ => None,
    }
}

fn check(c: &Case, st: &mut Stats) -> CheckResult {
    st.eval();
    let zone = ZONES[pick_idx(c.zone, ZONES.len())];
    let zone2 = ZONES[pick_idx(c.zone2, ZONES.len())];
    let (unit, _nominal) = TIME_UNITS[pick_idx(c.unit, TIME_UNITS.len())];
    // seconds per unit from the unit's own definition (RefDim), e.g. numbat's `year` is the
    // tropical year; prefixed seconds via the independent prefix table
    let cat = prelude_catalogue();
    let unit_s = match unit {
        "ns" => 1e-9,
        "µs" => 1e-6,
        "ms" => 1e-3,
        "ks" => 1e3,
        "Ms" => 1e6,
        other => match cat.by_alias.get(other) {
            Some(u) => cat.units[*u].base_factor,
            None => return Err(Failure::new("harness", format!("unknown time unit {other}"))),
        },
    };
    // optionally move the instant next to an offset transition of its zone
    let snapped = if c.near != 0 { snap_to_transition(c.secs, zone, c.near) } else { None };
    if snapped.is_some() {
        st.label("near-offset-transition");
    }
    let c = &Case { secs: snapped.unwrap_or(c.secs), ..c.clone() };
    let Some(t_text) = civil_utc(c.secs, c.nanos) else {
        st.excluded("instant-outside-supported-range");
        return Ok(());
    };
    if c.mant == 0 {
        // a literal 0 is polymorphic in numbat (`0 ns` has no fixed dimension) and `t + 0 ns`
        // is rejected by the type checker: documented language behaviour, not date arithmetic
        st.excluded("polymorphic-zero-literal");
        return Ok(());
    }
    let mag_text = format!("{}e{}", c.mant, c.exp10);
    let mag: f64 = mag_text.parse().unwrap();
    let d_s = mag * unit_s;
    // expected instant in integer nanoseconds
    let t_ns: i128 = c.secs as i128 * 1_000_000_000 + c.nanos as i128;
    let d_ns: i128 = (d_s * 1e9).round() as i128;
    let p_ns = t_ns + d_ns;
    let min_ns = MIN_SECS as i128 * 1_000_000_000;
    let max_ns = MAX_SECS as i128 * 1_000_000_000;
    let margin: i128 = 3 * 86400 * 1_000_000_000;
    let mut ctx = prelude();
    let setup = format!(
        "let xx_t = datetime(\"{t_text}\") -> tz(\"{zone}\")\nlet xx_d = {mag_text} {unit}\n"
    );
    let o = eval(&mut ctx, &setup);
    if let Some((loc, msg)) = &o.panic {
        return Err(Failure::new(format!("panic:{loc}"), format!("{setup}: panic at {loc}: {msg}")));
    }
    if !o.ok() {
        return Err(Failure::new("datetime-setup-fails", format!("{} for\n{setup}", o.summary())));
    }
    let desc = format!("t = {t_text} in {zone}, d = {mag_text} {unit}");
    // --- t + d, t - d ------------------------------------------------------------------
    let o = eval(&mut ctx, "let xx_p = xx_t + xx_d");
    if let Some((loc, msg)) = &o.panic {
        return Err(Failure::new(format!("panic:{loc}"), format!("t + d panicked at {loc}: {msg}; {desc}")));
    }
    let clearly_in = p_ns > min_ns + margin && p_ns < max_ns - margin && d_s.abs() < 9e18;
    let clearly_out = p_ns < min_ns - margin || p_ns > max_ns + margin || d_s.abs() > 9.3e18;
    if !o.ok() {
        let kind = o.err_kind().unwrap_or("").to_string();
        if clearly_in {
            return Err(Failure::new("in-range-addition-fails", format!("t + d fails with {}; {desc}", o.summary())));
        }
        if kind != "DateTimeOutOfRange" && kind != "DurationOutOfRange" {
            return Err(Failure::new("wrong-out-of-range-error", format!("t + d fails with {}; {desc}", o.summary())));
        }
        st.label("out-of-range-error");
        st.nontrivial_with_sample(hash_str(&format!("{desc}")), || json!({"t": t_text, "zone": zone, "d": format!("{mag_text} {unit}"), "outcome": kind}));
        return Ok(());
    }
    if clearly_out {
        return Err(Failure::new(
            "out-of-range-result-not-rejected",
            format!("t + d is beyond the supported range but evaluates to {:?}; {desc}", ctx.verif_raw_global("xx_p")),
        ));
    }
    let tol = 1e-9 + 4.0 * ulp(d_s) + 4.0 * ulp((p_ns - t_ns) as f64 * 1e-9);
    // expected instant, computed independently in integer nanoseconds
    if p_ns > min_ns && p_ns < max_ns {
        let ps = p_ns.div_euclid(1_000_000_000) as i64;
        let pn = p_ns.rem_euclid(1_000_000_000) as u32;
        if let Some(p_text) = civil_utc(ps, pn) {
            let code = format!(
                "let xx_e = (xx_p - datetime(\"{p_text}\")) / s\nlet xx_r1 = ((xx_p - xx_t) - xx_d) / s\nlet xx_r2 = ((xx_p - xx_d) - xx_t) / s\nlet xx_z = ((xx_t -> tz(\"{zone2}\")) - xx_t) / s\nlet xx_f = format_datetime(\"%Y-%m-%d %H:%M:%S%.9f %z\", xx_t)\nlet xx_b = (datetime(xx_f) - xx_t) / s\nlet xx_u1 = format_datetime(\"%Y-%m-%d %H:%M:%S%.9f\", xx_t -> tz(\"UTC\"))\nlet xx_u2 = format_datetime(\"%Y-%m-%d %H:%M:%S%.9f\", (xx_t -> tz(\"{zone2}\")) -> tz(\"UTC\"))"
            );
            let o = eval(&mut ctx, &code);
            if let Some((loc, msg)) = &o.panic {
                return Err(Failure::new(format!("panic:{loc}"), format!("{code}: panic at {loc}: {msg}; {desc}")));
            }
            if !o.ok() {
                // `(t + d) - d` may itself leave the range when t + d is at the very edge
                if !clearly_in {
                    st.label("edge-of-range");
                    return Ok(());
                }
                return Err(Failure::new("datetime-arithmetic-fails", format!("{}; {desc}\n{code}", o.summary())));
            }
            let get = |n: &str| scalar(&ctx, n).ok_or_else(|| Failure::new("harness", format!("{n} is not a scalar")));
            let (e, r1, r2, z, b) = (get("xx_e")?, get("xx_r1")?, get("xx_r2")?, get("xx_z")?, get("xx_b")?);
            if !(e.abs() <= tol) {
                return Err(Failure::new("wrong-instant", format!("t + d is {e:e} s away from the instant computed in integer nanoseconds ({p_text}); {desc}")));
            }
            if !(r1.abs() <= tol) {
                return Err(Failure::new("add-then-diff", format!("(t + d) - t differs from d by {r1:e} s (tolerance {tol:e}); {desc}")));
            }
            if !(r2.abs() <= tol) {
                return Err(Failure::new("add-then-sub", format!("(t + d) - d differs from t by {r2:e} s (tolerance {tol:e}); {desc}")));
            }
            if z != 0.0 {
                return Err(Failure::new("zone-conversion-moves-instant", format!("t -> tz(\"{zone2}\") differs from t by {z:e} s; {desc}")));
            }
            let (u1, u2) = (ctx.verif_raw_global("xx_u1"), ctx.verif_raw_global("xx_u2"));
            if u1 != u2 || u1.is_none() {
                return Err(Failure::new("zone-conversion-moves-instant", format!("UTC rendering changes through tz(\"{zone2}\"): {u1:?} vs {u2:?}; {desc}")));
            }
            // the UTC rendering equals the generated civil time
            if let Some(VValue::String(s)) = &u1 {
                if format!("{s} UTC") != t_text {
                    return Err(Failure::new("wrong-instant", format!("t renders in UTC as `{s}`, constructed from `{t_text}`; {desc}")));
                }
            }
            if b != 0.0 {
                return Err(Failure::new(
                    "format-parse-roundtrip",
                    format!("parsing the full-precision rendering {:?} gives an instant {b:e} s away; {desc}", ctx.verif_raw_global("xx_f")),
                ));
            }
            // the RFC 9557 rendering (offset and zone name) reads back as the same instant; in a
            // repeated hour it is the offset that tells the two passes apart (years 1..9999:
            // the RFC form has no negative years)
            if c.secs > -62_135_596_800 {
                let code2 = "let xx_f2 = format_datetime(\"%Y-%m-%dT%H:%M:%S%.9f%:z[%Q]\", xx_t)\nlet xx_b2 = (datetime(xx_f2) - xx_t) / s";
                let o2 = eval(&mut ctx, code2);
                if let Some((loc, msg)) = &o2.panic {
                    return Err(Failure::new(format!("panic:{loc}"), format!("{code2}: panic at {loc}: {msg}; {desc}")));
                }
                if !o2.ok() {
                    return Err(Failure::new(
                        "format-parse-roundtrip",
                        format!("the RFC 9557 rendering {:?} of t is not read back: {}; {desc}", ctx.verif_raw_global("xx_f2"), o2.summary()),
                    ));
                }
                let b2 = scalar(&ctx, "xx_b2").ok_or_else(|| Failure::new("harness", "xx_b2 is not a scalar"))?;
                if b2 != 0.0 {
                    return Err(Failure::new(
                        "format-parse-roundtrip",
                        format!("parsing the RFC 9557 rendering {:?} gives an instant {b2:e} s away; {desc}", ctx.verif_raw_global("xx_f2")),
                    ));
                }
                st.label("rfc9557-roundtrip");
            }
            st.label("in-range");
            if zone != "UTC" {
                st.label("non-utc-zone");
            }
            if c.nanos != 0 {
                st.label("sub-second");
            }
            if zone != "UTC" || c.nanos != 0 || d_s.abs() > 86400.0 {
                st.nontrivial_with_sample(hash_str(&desc), || json!({"t": t_text, "zone": zone, "zone2": zone2, "d": format!("{mag_text} {unit}")}));
            }
        }
    }
    Ok(())
}

fn run(cfg: &Cfg) -> Report {
    let mut rep = Report::new(
        cfg,
        "proptest instants (second + nanosecond) over the whole supported range -9999..9999 with emphasis on the present (DST transitions, leap days) and on both ends of the range, placed in one of 16 IANA zones (incl. 30/45-minute offsets, LMT-era offsets, date-line changes); durations mantissa x 10^k in 14 time units from ns to centuries, both signs, from sub-nanosecond to far out of range. Oracle: t + d equals the instant computed independently in integer nanoseconds; (t+d)-t = d and (t+d)-d = t within 1 ns + 4 ulp of d in seconds; converting to a second zone leaves the instant (difference exactly 0, identical UTC rendering, which also equals the constructed civil time); `format_datetime(\"%Y-%m-%d %H:%M:%S%.9f %z\")` parsed back gives difference 0, and so does the RFC 9557 rendering with offset and zone name (`%Y-%m-%dT%H:%M:%S%.9f%:z[%Q]`, years 1-9999); a quarter of the instants are moved to within two hours of the next UTC-offset transition of their zone (gaps and repeated hours, found with the harness's own tz database); a result clearly beyond the range must be DateTimeOutOfRange/DurationOutOfRange and a result clearly inside must succeed. non-trivial = non-UTC zone, sub-second part, |d| > 1 day, or an out-of-range case; distinct = (t, zone, d)",
    );
    let cases = cfg.tier.pick(8000u32, 60000u32);
    rep.absorb(run_proptest(
        cfg,
        "datetime",
        cases,
        case_strategy,
        |c: &Case| serde_json::to_value(c).unwrap(),
        check,
    ));
    rep.assume("process time zone is UTC (run.sh sets TZ=UTC); the IANA database is the one jiff finds in the sandbox");
    rep
}

fn replay(_sub: &str, case: &J) -> CheckResult {
    let c: Case = serde_json::from_value(case.clone()).map_err(|e| Failure::new("harness", e.to_string()))?;
    check(&c, &mut Stats::default())
}

//! unit catalogue and exact dimensional arithmetic

//! C16 — inferred function signatures are valid, principal annotations.

use crate::engine::*;
use crate::refmodel::units::*;
use crate::session::*;
use crate::PropDef;
use numbat::verif_hooks::VValue;
use proptest::prelude::*;
use serde::{Deserialize, Serialize};
use serde_json::{Value as J, json};
use std::collections::BTreeMap;

pub fn def() -> PropDef {
    PropDef {
        id: "C16",
        run,
        replay,
    }
}

/// Symbolic dimension: a monomial over the free symbols S0, S1 and the base dimensions.
type Mono = BTreeMap<&'static str, Rat>;

const SYMS: [&str; 5] = ["S0", "S1", "Length", "Time", "Mass"];

fn mono(pairs: &[(&'static str, Rat)]) -> Mono {
    let mut m = Mono::new();
    for (k, v) in pairs {
        if !v.is_zero() {
            m.insert(*k, *v);
        }
    }
    m
}

fn mmul(a: &Mono, b: &Mono) -> Mono {
    let mut m = a.clone();
    for (k, v) in b {
        let e = m.entry(*k).or_insert(Rat::zero());
        *e = e.add(*v);
    }
    m.retain(|_, v| !v.is_zero());
    m
}

fn mpow(a: &Mono, k: Rat) -> Mono {
    let mut m = Mono::new();
    for (s, v) in a {
        let e = v.mul(k);
        if !e.is_zero() {
            m.insert(*s, e);
        }
    }
    m
}

fn small(m: &Mono) -> bool {
    m.values().all(|e| e.d <= 4 && e.n.abs() <= 6)
}

#[derive(Clone, Debug, Serialize, Deserialize)]
struct Case {
    /// class of each parameter (index into CLASSES)
    params: Vec<u8>,
    /// result class
    result: u8,
    seed: u32,
    wheres: u8,
    /// call sites: per call a seed; even seeds are instantiated consistently
    calls: Vec<u32>,
    /// use a previously defined helper function in the body
    helper: bool,
}

/// Parameter / result classes as monomials.
fn classes() -> Vec<Mono> {
    let one = Rat::one();
    vec![
        mono(&[("S0", one)]),
        mono(&[("S1", one)]),
        mono(&[("S0", one)]),
        mono(&[("S0", one), ("S1", one)]),
        mono(&[("Length", one)]),
        mono(&[("S0", Rat::int(2))]),
        mono(&[("S0", one), ("Time", Rat::int(-1))]),
        mono(&[]),
        mono(&[("S1", Rat::new(1, 2))]),
        mono(&[("S0", one), ("S1", Rat::int(-1))]),
        mono(&[("Length", one), ("Time", Rat::int(-1))]),
        mono(&[("S0", Rat::int(-1))]),
    ]
}

fn case_strategy() -> impl Strategy<Value = Case> {
    (
        proptest::collection::vec(0u8..12, 1..5),
        0u8..12,
        any::<u32>(),
        0u8..3,
        proptest::collection::vec(any::<u32>(), 6..12),
        any::<bool>(),
    )
        .prop_map(|(params, result, seed, wheres, calls, helper)| Case { params, result, seed, wheres, calls, helper })
}

struct Rng(u64);
impl Rng {
    fn next(&mut self) -> u64 {
        self.0 = splitmix64(self.0);
        self.0
    }
    fn below(&mut self, n: usize) -> usize {
        if n == 0 { 0 } else { (self.next() % n as u64) as usize }
    }
}

fn exp_text(e: Rat) -> String {
    if e == Rat::one() {
        String::new()
    } else if e.is_int() {
        format!("^({})", e.n)
    } else {
        format!("^({}/{})", e.n, e.d)
    }
}

/// unit literal for the base-dimension part of a monomial (symbols must be absent)
fn unit_literal(m: &Mono, r: &mut Rng) -> String {
    let mag = ["2", "3", "5", "1.5", "4"][r.below(5)];
    let mut parts = vec![];
    for (k, e) in m {
        let u = match *k {
            "Length" => ["m", "cm", "km"][r.below(3)],
            "Time" => ["s", "min"][r.below(2)],
            "Mass" => ["kg", "g"][r.below(2)],
            _ => unreachable!(),
        };
        parts.push(format!("{u}{}", exp_text(*e)));
    }
    if parts.is_empty() {
        mag.to_string()
    } else {
        format!("({mag} * {})", parts.join(" * "))
    }
}

struct Gen {
    /// names in scope with their monomials
    vars: Vec<(String, Mono)>,
    helper: Option<String>,
}

impl Gen {
    fn leaf(&self, t: &Mono, r: &mut Rng) -> String {
        let cands: Vec<&String> = self.vars.iter().filter(|(_, m)| m == t).map(|(n, _)| n).collect();
        if !cands.is_empty() && r.below(4) > 0 {
            return cands[r.below(cands.len())].clone();
        }
        // compose from parameters for the symbolic part and a unit literal for the rest
        let mut rest = t.clone();
        let mut parts = vec![];
        for sym in ["S0", "S1"] {
            if let Some(e) = t.get(sym) {
                // a variable that is exactly this symbol
                if let Some((n, _)) = self.vars.iter().find(|(_, m)| m.len() == 1 && m.get(sym) == Some(&Rat::one())) {
                    parts.push(format!("{n}{}", exp_text(*e)));
                    rest.remove(sym);
                } else if let Some((n, m)) = self.vars.iter().find(|(_, m)| m.contains_key(sym)) {
                    // raise a variable that contains the symbol to the power needed and fix up the rest
                    let k = Rat::new(e.n * m[sym].d, e.d * m[sym].n);
                    parts.push(format!("{n}{}", exp_text(k)));
                    let used = mpow(m, k);
                    rest = mmul(&rest, &mpow(&used, Rat::int(-1)));
                }
            }
        }
        if rest.keys().any(|k| k.starts_with('S')) {
            // cannot be expressed with the variables at hand
            return String::new();
        }
        parts.push(unit_literal(&rest, r));
        format!("({})", parts.join(" * "))
    }

    fn expr(&self, t: &Mono, r: &mut Rng, depth: u32) -> String {
        if depth == 0 {
            return self.leaf(t, r);
        }
        let d = depth - 1;
        let s = match r.below(9) {
            0 | 1 => self.leaf(t, r),
            2 => format!("({} + {})", self.expr(t, r, d), self.expr(t, r, d)),
            3 => format!("({} - {})", self.expr(t, r, d), self.expr(t, r, d)),
            4 => {
                // product: split off a random variable's monomial
                if self.vars.is_empty() {
                    return self.leaf(t, r);
                }
                let (_, m) = &self.vars[r.below(self.vars.len())];
                let other = mmul(t, &mpow(m, Rat::int(-1)));
                if !small(&other) {
                    return self.leaf(t, r);
                }
                format!("({} * {})", self.expr(m, r, d), self.expr(&other, r, d))
            }
            5 => {
                if self.vars.is_empty() {
                    return self.leaf(t, r);
                }
                let (_, m) = &self.vars[r.below(self.vars.len())];
                let num = mmul(t, m);
                if !small(&num) {
                    return self.leaf(t, r);
                }
                format!("({} / {})", self.expr(&num, r, d), self.expr(m, r, d))
            }
            6 => {
                let ks = [Rat::int(2), Rat::new(1, 2), Rat::int(-1), Rat::int(3), Rat::new(3, 2)];
                let k = ks[r.below(ks.len())];
                let base = mpow(t, Rat::new(k.d, k.n));
                if !small(&base) {
                    return self.leaf(t, r);
                }
                let b = self.expr(&base, r, d);
                if b.is_empty() {
                    return String::new();
                }
                format!("(({b}){})", exp_text(k))
            }
            7 => {
                let c = if self.vars.is_empty() { mono(&[]) } else { self.vars[r.below(self.vars.len())].1.clone() };
                let (a1, a2) = (self.expr(&c, r, 1), self.expr(&c, r, 1));
                let op = ["<", ">", "<=", ">=", "==", "!="][r.below(6)];
                format!("(if ({a1} {op} {a2}) then {} else {})", self.expr(t, r, d), self.expr(t, r, d))
            }
            _ => match r.below(4) {
                0 => format!("abs({})", self.expr(t, r, d)),
                1 => {
                    let inner = mpow(t, Rat::int(2));
                    if !small(&inner) {
                        return self.leaf(t, r);
                    }
                    format!("sqrt({})", self.expr(&inner, r, d))
                }
                2 => {
                    let inner = mpow(t, Rat::new(1, 2));
                    if !small(&inner) {
                        return self.leaf(t, r);
                    }
                    format!("sqr({})", self.expr(&inner, r, d))
                }
                _ => match &self.helper {
                    // helper<A, B>(a, b) = a * b^2 (inferred)
                    Some(h) => {
                        if self.vars.is_empty() {
                            return self.leaf(t, r);
                        }
                        let (_, m) = &self.vars[r.below(self.vars.len())];
                        let first = mmul(t, &mpow(m, Rat::int(-2)));
                        if !small(&first) {
                            return self.leaf(t, r);
                        }
                        format!("{h}({}, {})", self.expr(&first, r, d), self.expr(m, r, d))
                    }
                    None => self.leaf(t, r),
                },
            },
        };
        s
    }
}

struct Built {
    setup: String,
    name: String,
    params: Vec<String>,
    body: String,
    wheres: String,
    classes: Vec<Mono>,
}

fn build(c: &Case) -> Option<Built> {
    let cls = classes();
    let mut r = Rng(c.seed as u64);
    let params: Vec<String> = (0..c.params.len()).map(|i| format!("p{i}")).collect();
    let pclasses: Vec<Mono> = c.params.iter().map(|k| cls[*k as usize % cls.len()].clone()).collect();
    let mut g = Gen {
        vars: params.iter().cloned().zip(pclasses.iter().cloned()).collect(),
        helper: if c.helper { Some("c16_helper".to_string()) } else { None },
    };
    // the result must be expressible: only symbols that some parameter carries
    let mut result = cls[c.result as usize % cls.len()].clone();
    for sym in ["S0", "S1"] {
        if result.contains_key(sym) && !g.vars.iter().any(|(_, m)| m.contains_key(sym)) {
            result.remove(sym);
        }
    }
    let mut wheres = String::new();
    for i in 0..c.wheres {
        let t = if g.vars.is_empty() { mono(&[]) } else { g.vars[r.below(g.vars.len())].1.clone() };
        let t = if r.below(2) == 0 { mpow(&t, Rat::int(2)) } else { t };
        let e = g.expr(&t, &mut r, 2);
        if e.is_empty() || e.contains("()") {
            return None;
        }
        let n = format!("w{i}");
        wheres.push_str(&format!("\n  {} {n} = {e}", if i == 0 { "where" } else { "and" }));
        g.vars.push((n, t));
    }
    let body = g.expr(&result, &mut r, 3);
    if body.is_empty() || body.contains("()") || body.contains("( *") {
        return None;
    }
    Some(Built {
        setup: "fn c16_helper(a, b) = a * b^2".to_string(),
        name: "c16_f".to_string(),
        params,
        body,
        wheres,
        classes: pclasses,
    })
}

/// the part of a pretty-printed function definition before its ` = `
fn signature_of(pretty: &str) -> Option<String> {
    let first = pretty.lines().next()?;
    let i = first.find(" = ")?;
    Some(first[..i].to_string())
}

fn concrete(m: &Mono, s0: &DimVec, s1: &DimVec) -> DimVec {
    let mut v = DimVec::scalar();
    for (k, e) in m {
        let base = match *k {
            "S0" => s0.clone(),
            "S1" => s1.clone(),
            other => DimVec::single(other),
        };
        v = v.mul(&base.pow(*e));
    }
    v
}

fn arg_text(v: &DimVec, r: &mut Rng) -> String {
    let mag = ["2", "3", "5", "1.5", "4", "0.5"][r.below(6)];
    if v.is_scalar() {
        return mag.to_string();
    }
    let parts: Vec<String> = v
        .0
        .iter()
        .map(|(k, e)| {
            let u = match k.as_str() {
                "Length" => ["m", "cm"][r.below(2)],
                "Time" => ["s", "min"][r.below(2)],
                _ => ["kg", "g"][r.below(2)],
            };
            format!("{u}{}", exp_text(*e))
        })
        .collect();
    format!("({mag} * {})", parts.join(" * "))
}

fn random_vec(r: &mut Rng) -> DimVec {
    let opts: [&[(&str, i128)]; 7] = [&[], &[("Length", 1)], &[("Time", 1)], &[("Length", 1), ("Time", -1)], &[("Length", 2)], &[("Mass", 1)], &[("Time", -2)]];
    let mut v = DimVec::scalar();
    for (k, e) in opts[r.below(opts.len())] {
        v = v.mul(&DimVec::single(k).pow(Rat::int(*e)));
    }
    v
}

fn approx(a: &Option<VValue>, b: &Option<VValue>) -> bool {
    match (a, b) {
        (Some(VValue::Quantity(p)), Some(VValue::Quantity(q))) => {
            p.factors == q.factors && (p.value == q.value || (p.value.is_nan() && q.value.is_nan()) || (p.value - q.value).abs() <= 1e-12 * p.value.abs().max(q.value.abs()))
        }
        (x, y) => x == y,
    }
}

fn check(c: &Case, st: &mut Stats) -> CheckResult {
    st.eval();
    let Some(b) = build(c) else {
        st.excluded("body-not-expressible");
        return Ok(());
    };
    let mut ctx = prelude();
    let def = format!("fn {}({}) = {}{}", b.name, b.params.join(", "), b.body, b.wheres);
    let o = eval(&mut ctx, &format!("{}\n{def}", b.setup));
    if let Some((loc, msg)) = &o.panic {
        return Err(Failure::new(format!("panic:{loc}"), format!("`{def}` panicked at {loc}: {msg}")));
    }
    if !o.ok() {
        // the checker does not accept the unannotated body: nothing to compare (generator slip)
        st.label("unannotated-definition-rejected");
        return Ok(());
    }
    let Some(info) = o.stmts.last() else { return Ok(()) };
    let Some(sig) = signature_of(&info.pretty) else {
        return Err(Failure::new("harness", format!("no signature in `{}`", info.pretty)));
    };
    // re-declare the same body with the printed signature
    let ann_sig = sig.replacen(&format!("fn {}", b.name), &format!("fn {}_ann", b.name), 1);
    let ann_def = format!("{ann_sig} = {}{}", b.body, b.wheres);
    let oa = eval(&mut ctx, &ann_def);
    let sup = |c: char| "⁰¹²³⁴⁵⁶⁷⁸⁹".contains(c);
    let two_digit_superscript = sig.chars().zip(sig.chars().skip(1)).any(|(a, b)| sup(a) && sup(b));
    let sig_class = |base: &str| {
        if sig.contains(" or ") {
            format!("{base}:alternative-dimension-names")
        } else if two_digit_superscript {
            format!("{base}:two-digit-superscript-exponent")
        } else {
            base.to_string()
        }
    };
    if let Some((loc, msg)) = &oa.panic {
        return Err(Failure::new(format!("panic:{loc}"), format!("`{ann_def}` panicked at {loc}: {msg}")));
    }
    if let Some(e) = &oa.error {
        return Err(Failure::new(
            sig_class("printed-signature-rejected"),
            format!("the checker inferred `{sig}` for `{def}`, but the same body annotated with it is rejected: {:?}/{}: {}\n{ann_def}", e.stage, e.kind, e.message),
        ));
    }
    // call sites
    let (mut accepted, mut rejected) = (0, 0);
    for (ci, cs) in c.calls.iter().enumerate() {
        let mut r = Rng(*cs as u64);
        let consistent = cs % 2 == 0;
        let (s0, s1) = (random_vec(&mut r), random_vec(&mut r));
        let args: Vec<String> = b
            .classes
            .iter()
            .map(|m| {
                let v = if consistent { concrete(m, &s0, &s1) } else { random_vec(&mut r) };
                arg_text(&v, &mut r)
            })
            .collect();
        let call = format!("{}({})", b.name, args.join(", "));
        let call_ann = format!("{}_ann({})", b.name, args.join(", "));
        let (mut c1, mut c2) = (ctx.clone(), ctx.clone());
        let (r1, r2) = (eval(&mut c1, &call), eval(&mut c2, &call_ann));
        for (o, t) in [(&r1, &call), (&r2, &call_ann)] {
            if let Some((loc, msg)) = &o.panic {
                return Err(Failure::new(format!("panic:{loc}"), format!("`{t}` panicked at {loc}: {msg}\n{def}")));
            }
        }
        let tc_fail = |o: &Outcome| o.error.as_ref().map(|e| e.stage == Stage::TypeCheck).unwrap_or(false);
        let desc = format!("call {ci} `{call}`; inferred `{sig}`\n{def}");
        if tc_fail(&r1) != tc_fail(&r2) {
            return Err(Failure::new(
                if tc_fail(&r2) { "annotation-less-permissive" } else { "annotation-more-permissive" },
                format!("the inferred version gives {}, the annotated version gives {}; {desc}", r1.summary(), r2.summary()),
            ));
        }
        if tc_fail(&r1) {
            rejected += 1;
            continue;
        }
        accepted += 1;
        let t1 = r1.stmts.last().and_then(|s| s.vtype.clone());
        let t2 = r2.stmts.last().and_then(|s| s.vtype.clone());
        if r1.ok() && r2.ok() && t1 != t2 {
            return Err(Failure::new("result-type-differs", format!("result types {t1:?} vs {t2:?}; {desc}")));
        }
        if r1.ok() != r2.ok() || (r1.ok() && !approx(&r1.result, &r2.result)) {
            return Err(Failure::new("result-differs", format!("{} vs {}; {desc}", r1.summary(), r2.summary())));
        }
    }
    st.label_n("calls-accepted", accepted);
    st.label_n("calls-rejected", rejected);
    let interesting_sig = sig.contains('<') && (sig.contains('×') || sig.contains('/') || sig.contains('^') || sig.contains('²') || sig.contains('³'));
    if interesting_sig {
        st.label("signature-with-product-or-power");
    }
    if interesting_sig && accepted >= 1 && rejected >= 1 {
        st.nontrivial_with_sample(hash_str(&def), || json!({"definition": def, "inferred": sig, "calls_accepted": accepted, "calls_rejected": rejected}));
    }
    Ok(())
}

fn run(cfg: &Cfg) -> Report {
    let mut rep = Report::new(
        cfg,
        "proptest unannotated functions `fn f(p0..pn) = body [where …]` with 1-4 parameters: each parameter belongs to a symbolic dimension class (a monomial over two free symbols and the base dimensions, e.g. S0, S1, S0·S1, S0², S0/Time, S1^(1/2), Length), the body is generated for a requested result monomial from parameters, unit literals, + - * /, rational powers, sqrt/sqr/abs, conditionals with comparisons, calls to a previously defined inferred generic function, and where-clauses; 6-11 call sites per function, half instantiated consistently with the classes, half with random dimensions. Oracle: the signature numbat prints for the definition, used to annotate the same body under another name, is accepted; every call is accepted by the inferred version iff it is accepted by the annotated version; accepted calls have the same result type and value. non-trivial = the printed signature has type parameters with a product/quotient/power, and the call sites include an accepted and a rejected one; distinct = definition text",
    );
    let cases = cfg.tier.pick(1000u32, 10000u32);
    rep.absorb(run_proptest(
        cfg,
        "functions",
        cases,
        case_strategy,
        |c: &Case| {
            let b = build(c);
            json!({"case": c, "definition": b.map(|b| format!("fn {}({}) = {}{}", b.name, b.params.join(", "), b.body, b.wheres))})
        },
        check,
    ));
    let _ = SYMS;
    rep
}

fn replay(_sub: &str, case: &J) -> CheckResult {
    let c: Case = serde_json::from_value(case["case"].clone()).map_err(|e| Failure::new("harness", e.to_string()))?;
    check(&c, &mut Stats::default())
}

//! Shared enumeration of ordered same-dimension unit pairs with (pseudo-randomly) prefixed
//! spellings, used by C04, C11, C12 and C21.

use crate::engine::splitmix64;
use crate::refmodel::units::*;

#[derive(Clone, Debug)]
pub struct UnitSpelling {
    pub unit: usize,
    /// identifier as written in the source (possibly prefixed)
    pub ident: String,
    /// factor of `ident` to base units according to RefDim
    pub factor: f64,
    pub prefixed: bool,
}

/// A deterministic, seed-dependent spelling of a unit: its primary name, one of its aliases,
/// and with probability 1/2 (if the unit accepts prefixes) an accepted prefix.
pub fn spelling(cat: &Catalogue, unit: usize, salt: u64) -> UnitSpelling {
    let u = &cat.units[unit];
    let r = splitmix64(salt ^ (unit as u64).wrapping_mul(0x9E37));
    let aliases = &u.def.aliases;
    let (alias, short, long) = if aliases.is_empty() {
        (u.def.name.clone(), false, false)
    } else {
        aliases[(r % aliases.len() as u64) as usize].clone()
    };
    let accepted = cat.accepted_prefixes(unit, short, long);
    let r2 = splitmix64(r);
    // aliases that start with a symbol (`″`, `°`, `%`) cannot be continued into a longer
    // identifier, so a prefixed form of them is not one identifier (see C13's known finding)
    let prefixable = alias.chars().next().map(|c| c.is_alphabetic()).unwrap_or(false);
    if prefixable && !accepted.is_empty() && r2 % 2 == 0 {
        let (pi, is_short) = accepted[((r2 >> 8) % accepted.len() as u64) as usize];
        let p = &PREFIX_TABLE[pi];
        let pre = if is_short {
            p.shorts[((r2 >> 40) % p.shorts.len() as u64) as usize]
        } else {
            p.long
        };
        let ident = format!("{pre}{alias}");
        if cat.unambiguous(&ident) {
            return UnitSpelling {
                unit,
                ident,
                factor: p.factor() * u.base_factor,
                prefixed: true,
            };
        }
    }
    if cat.unambiguous(&alias) {
        UnitSpelling {
            unit,
            ident: alias,
            factor: u.base_factor,
            prefixed: false,
        }
    } else {
        UnitSpelling {
            unit,
            ident: u.def.name.clone(),
            factor: u.base_factor,
            prefixed: false,
        }
    }
}

/// Format an f64 as a numbat literal (always a valid literal; sign handled by the caller
/// through a leading minus, which numbat parses as unary negation).
pub fn lit(x: f64) -> String {
    if x.is_nan() {
        return "NaN".into();
    }
    if x.is_infinite() {
        return if x > 0.0 { "inf".into() } else { "(-inf)".into() };
    }
    let s = format!("{x:?}");
    // Rust prints 1e21 / 1e-7 forms that numbat also accepts; "-0.0" etc. are fine too.
    if x < 0.0 || (x == 0.0 && x.is_sign_negative()) {
        format!("({s})")
    } else {
        s
    }
}

pub fn pseudo_mag(seed: u64) -> f64 {
    // log-uniform in 1e-3 .. 1e3 with 3 significant digits
    let r = splitmix64(seed);
    let e = (r % 7) as i32 - 3;
    let m = 100 + (splitmix64(r) % 900) as i64;
    format!("{m}e{}", e - 2).parse::<f64>().unwrap()
}

//! C13 — standard-library unit names and prefixes resolve correctly and uniquely.

use crate::engine::*;
use crate::refmodel::units::*;
use crate::session::*;
use crate::PropDef;
use numbat::verif_hooks::{VPrefix, VResolution, VValue};
use serde_json::{Value as J, json};
use std::collections::{BTreeMap, BTreeSet};

pub fn def() -> PropDef {
    PropDef {
        id: "C13",
        run,
        replay,
    }
}

#[derive(Clone, Debug)]
struct Cand {
    ident: String,
    unit: String,
    alias: String,
    /// index into PREFIX_TABLE, None = bare alias
    prefix: Option<usize>,
    short_form: bool,
    /// by the unit's decorators: is this combination accepted?
    accepted: bool,
    kind: String,
}

fn cand_json(c: &Cand) -> J {
    json!({"ident": c.ident, "unit": c.unit, "alias": c.alias, "prefix": c.prefix.map(|p| PREFIX_TABLE[p].long),
           "short_form": c.short_form, "accepted": c.accepted, "kind": c.kind})
}

fn cand_from(j: &J) -> Cand {
    Cand {
        ident: j["ident"].as_str().unwrap_or("").into(),
        unit: j["unit"].as_str().unwrap_or("").into(),
        alias: j["alias"].as_str().unwrap_or("").into(),
        prefix: j["prefix"].as_str().and_then(|l| PREFIX_TABLE.iter().position(|p| p.long == l)),
        short_form: j["short_form"].as_bool().unwrap_or(false),
        accepted: j["accepted"].as_bool().unwrap_or(false),
        kind: j["kind"].as_str().unwrap_or("").into(),
    }
}

fn want_prefix(c: &Cand) -> VPrefix {
    match c.prefix {
        Some(p) => PREFIX_TABLE[p].vprefix(),
        None => VPrefix::Metric(0),
    }
}

/// Evaluate `1 <ident>` and report the single (prefix, unit) factor it denotes, if any.
fn reading_by_evaluation(ident: &str) -> Result<Option<(VPrefix, String, f64, String)>, Failure> {
    let mut ctx = prelude();
    let o = eval(&mut ctx, &format!("let xx_u = 1 {ident}\nxx_u -> xx_u"));
    if let Some((loc, msg)) = &o.panic {
        return Err(Failure::new(format!("panic:{loc}"), format!("`1 {ident}`: panic {msg}")));
    }
    if !o.ok() {
        return Ok(None);
    }
    match ctx.verif_raw_global("xx_u") {
        Some(VValue::Quantity(q)) if q.factors.len() == 1 && q.factors[0].exponent == (1, 1) => Ok(Some((
            q.factors[0].prefix,
            q.factors[0].unit.clone(),
            q.value,
            o.result_text.clone().unwrap_or_default(),
        ))),
        Some(VValue::Quantity(q)) => Ok(Some((VPrefix::Metric(0), format!("<compound:{}>", q.unit_display), q.value, String::new()))),
        _ => Ok(None),
    }
}

fn symbol_alias(alias: &str) -> bool {
    !alias.chars().next().map(|c| c.is_alphabetic() || c == '_').unwrap_or(false)
}

fn check(c: &Cand, st: &mut Stats) -> CheckResult {
    st.eval();
    let cat = prelude_catalogue();
    let ctx = prelude();
    let want = (want_prefix(c), c.unit.clone());
    let hook = ctx.verif_resolve_identifier(&c.ident);
    let by_hook = match &hook {
        VResolution::Unit { prefix, full_name, .. } => Some((*prefix, full_name.clone())),
        VResolution::Identifier => None,
    };
    let by_eval = reading_by_evaluation(&c.ident)?;
    let eval_reading = by_eval.as_ref().map(|(p, u, _, _)| (*p, u.clone()));
    // signature class for prefixed forms of aliases that start with a symbol
    let sig = |base: &str| {
        if c.prefix.is_some() && symbol_alias(&c.alias) {
            format!("prefixed-symbol-alias:{}", c.unit)
        } else {
            base.to_string()
        }
    };
    if c.accepted {
        // a bare alias that another unit's accepted *prefixed* form also spells is decided by
        // the uniqueness check below; here: the accepted combination must be read as itself
        if eval_reading.as_ref() != Some(&want) {
            return Err(Failure::new(
                sig("accepted-form-not-read-as-unit"),
                format!(
                    "`{}` ({} + alias `{}` of unit {}) is accepted by the unit's decorators but `1 {}` is read as {:?}",
                    c.ident, c.prefix.map(|p| PREFIX_TABLE[p].long).unwrap_or("no prefix"), c.alias, c.unit, c.ident, eval_reading
                ),
            ));
        }
        if by_hook.as_ref() != Some(&want) {
            return Err(Failure::new(
                sig("accepted-form-not-resolved"),
                format!("`{}` should resolve to {:?}, the session's prefix parser says {:?}", c.ident, want, hook),
            ));
        }
        // value: exactly 1, physical value = prefix factor × unit
        let (_, _, value, text) = by_eval.clone().unwrap();
        if value != 1.0 {
            return Err(Failure::new("unit-value-not-one", format!("`1 {}` has value {value}", c.ident)));
        }
        // output form reads back as the same prefixed unit
        if let Some((n, unit_text)) = split_displayed_quantity(&text) {
            if n == 1.0 && !unit_text.is_empty() {
                let back = reading_by_evaluation(&unit_text)?;
                let back_reading = back.map(|(p, u, _, _)| (p, u));
                if back_reading.as_ref() != Some(&want) {
                    return Err(Failure::new(
                        if c.prefix.is_some() && symbol_alias(&cat.unit(&c.unit).map(|u| u.def.canonical_name.clone()).unwrap_or_default()) {
                            format!("prefixed-symbol-alias:{}", c.unit)
                        } else {
                            "output-form-does-not-read-back".to_string()
                        },
                        format!("`1 {}` is displayed as `{text}`; `{unit_text}` reads back as {:?}, not {:?}", c.ident, back_reading, want),
                    ));
                }
                st.label("output-form-read-back");
            } else {
                return Err(Failure::new("output-form-does-not-read-back", format!("`1 {}` is displayed as `{text}`", c.ident)));
            }
        }
        st.label(if c.prefix.is_some() { "accepted:prefixed" } else { "accepted:bare" });
        if c.prefix.is_some() {
            st.nontrivial_with_sample(hash_str(&c.ident), || json!({"ident": c.ident, "reads_as": format!("{:?}", want)}));
        }
    } else {
        // not accepted: must not be read as that unit with that prefix
        if eval_reading.as_ref() == Some(&want) || by_hook.as_ref() == Some(&want) {
            // legitimate exception: the same identifier is *also* an accepted form of the same
            // (prefix, unit) through another alias/spelling
            let also_accepted = cat.all_forms().iter().any(|f| {
                f.ident == c.ident && cat.units[f.unit].def.name == c.unit && f.prefix.map(|p| PREFIX_TABLE[p].vprefix()).unwrap_or(VPrefix::Metric(0)) == want.0
            });
            if !also_accepted {
                return Err(Failure::new(
                    "unaccepted-form-read-as-unit",
                    format!(
                        "`{}` ({} + alias `{}`, {} form) is not accepted by unit {}'s decorators but is read as {:?}",
                        c.ident, c.prefix.map(|p| PREFIX_TABLE[p].long).unwrap_or("no prefix"), c.alias,
                        if c.short_form { "short" } else { "long" }, c.unit, want
                    ),
                ));
            }
        }
        st.label(&format!("rejected:{}", c.kind));
        st.nontrivial(hash_str(&c.ident));
    }
    Ok(())
}

/// What the module sources declare, read with a small parser of our own (independent of
/// numbat's decorator handling): unit name -> (metric prefixes, binary prefixes,
/// [(alias, accepts short prefixes, accepts long prefixes)]). Per the documentation the unit
/// name and un-annotated aliases accept long prefixes, `: short` short ones, `: both` both and
/// `: none` none.
struct Declared {
    metric: bool,
    binary: bool,
    aliases: Vec<(String, bool, bool)>,
}

fn declared_from_sources() -> BTreeMap<String, Declared> {
    fn walk(dir: &std::path::Path, out: &mut Vec<std::path::PathBuf>) {
        if let Ok(rd) = std::fs::read_dir(dir) {
            let mut entries: Vec<_> = rd.filter_map(|e| e.ok().map(|e| e.path())).collect();
            entries.sort();
            for p in entries {
                if p.is_dir() {
                    walk(&p, out);
                } else if p.extension().and_then(|e| e.to_str()) == Some("nbt") {
                    out.push(p);
                }
            }
        }
    }
    let mut files = vec![];
    walk(std::path::Path::new("/repo/numbat/modules"), &mut files);
    let mut map = BTreeMap::new();
    for f in files {
        let Ok(text) = std::fs::read_to_string(&f) else { continue };
        let mut metric = false;
        let mut binary = false;
        let mut aliases: Vec<(String, bool, bool)> = vec![];
        let mut pending: Option<String> = None;
        for raw in text.lines() {
            let line = raw.trim();
            if let Some(p) = &mut pending {
                p.push(' ');
                p.push_str(line);
                if !line.contains(')') {
                    continue;
                }
            }
            let line: String = pending.take().unwrap_or_else(|| line.to_string());
            if line.starts_with("@aliases(") && !line.contains(')') {
                pending = Some(line);
                continue;
            }
            if line.starts_with("@metric_prefixes") {
                metric = true;
            } else if line.starts_with("@binary_prefixes") {
                binary = true;
            } else if let Some(rest) = line.strip_prefix("@aliases(") {
                let inner = rest.split(')').next().unwrap_or("");
                for item in inner.split(',') {
                    let item = item.trim();
                    if item.is_empty() {
                        continue;
                    }
                    let (name, kind) = match item.split_once(':') {
                        Some((n, k)) => (n.trim(), k.trim()),
                        None => (item, "long"),
                    };
                    let (s, l) = match kind {
                        "short" => (true, false),
                        "both" => (true, true),
                        "none" => (false, false),
                        _ => (false, true),
                    };
                    aliases.push((name.to_string(), s, l));
                }
            } else if line.starts_with('@') || line.starts_with('#') || line.is_empty() {
                // other decorators, comments and blank lines keep the pending decorators
            } else {
                if let Some(rest) = line.strip_prefix("unit ") {
                    let name: String = rest.chars().take_while(|c| c.is_alphanumeric() || *c == '_' || !c.is_ascii()).collect();
                    let name = name.trim().to_string();
                    if !name.is_empty() {
                        // the unit name accepts long prefixes unless it is listed with its own annotation
                        let mut all = vec![];
                        if !aliases.iter().any(|a| a.0 == name) {
                            all.push((name.clone(), false, true));
                        }
                        all.extend(aliases.iter().cloned());
                        map.insert(name, Declared { metric, binary, aliases: all });
                    }
                }
                metric = false;
                binary = false;
                aliases.clear();
            }
        }
    }
    map
}

/// Differences between the declarations in the module sources and what the session
/// registered for the same unit (the table below is built from the former).
fn registration_mismatches() -> Vec<String> {
    let cat = prelude_catalogue();
    let declared = declared_from_sources();
    let mut out = vec![];
    for u in &cat.units {
        let d = &u.def;
        let Some(decl) = declared.get(&d.name) else { continue };
        if decl.metric != d.metric_prefixes || decl.binary != d.binary_prefixes {
            out.push(format!(
                "unit `{}` is declared with metric={} binary={} prefixes but registered with metric={} binary={}",
                d.name, decl.metric, decl.binary, d.metric_prefixes, d.binary_prefixes
            ));
        }
        for (alias, s, l) in &decl.aliases {
            match d.aliases.iter().find(|a| &a.0 == alias) {
                None => out.push(format!("alias `{alias}` of unit `{}` is declared but not registered", d.name)),
                Some((_, rs, rl)) if rs != s || rl != l => out.push(format!(
                    "alias `{alias}` of unit `{}` is declared to accept short={s} long={l} prefixes but registered with short={rs} long={rl}",
                    d.name
                )),
                _ => {}
            }
        }
        for (alias, _, _) in &d.aliases {
            if !decl.aliases.iter().any(|a| &a.0 == alias) {
                out.push(format!("alias `{alias}` of unit `{}` is registered but not declared", d.name));
            }
        }
    }
    out
}

fn build(_cfg: &Cfg) -> Vec<Cand> {
    let cat = prelude_catalogue();
    let mut out = vec![];
    for u in &cat.units {
        let d = &u.def;
        for (alias, short_ok, long_ok) in &d.aliases {
            out.push(Cand {
                ident: alias.clone(),
                unit: d.name.clone(),
                alias: alias.clone(),
                prefix: None,
                short_form: false,
                accepted: true,
                kind: "bare".into(),
            });
            for (pi, p) in PREFIX_TABLE.iter().enumerate() {
                let family = if p.metric { d.metric_prefixes } else { d.binary_prefixes };
                out.push(Cand {
                    ident: format!("{}{alias}", p.long),
                    unit: d.name.clone(),
                    alias: alias.clone(),
                    prefix: Some(pi),
                    short_form: false,
                    accepted: family && *long_ok,
                    kind: "table-long".into(),
                });
                for s in p.shorts {
                    out.push(Cand {
                        ident: format!("{s}{alias}"),
                        unit: d.name.clone(),
                        alias: alias.clone(),
                        prefix: Some(pi),
                        short_form: true,
                        accepted: family && *short_ok,
                        kind: "table-short".into(),
                    });
                }
                // near misses (never accepted): wrong case, doubled prefix
                if pi % 5 == 0 {
                    let mut chars = p.long.chars();
                    let cap: String = chars.next().map(|c| c.to_uppercase().collect::<String>() + chars.as_str()).unwrap_or_default();
                    out.push(Cand {
                        ident: format!("{cap}{alias}"),
                        unit: d.name.clone(),
                        alias: alias.clone(),
                        prefix: Some(pi),
                        short_form: false,
                        accepted: false,
                        kind: "near-miss-capitalised".into(),
                    });
                    out.push(Cand {
                        ident: format!("{}{}{alias}", p.long, p.long),
                        unit: d.name.clone(),
                        alias: alias.clone(),
                        prefix: Some(pi),
                        short_form: false,
                        accepted: false,
                        kind: "near-miss-double-prefix".into(),
                    });
                }
            }
        }
    }
    out
}

fn run(cfg: &Cfg) -> Report {
    let mut rep = Report::new(
        cfg,
        "the complete table {unit alias} x {34 prefixes} x {long spelling, every short spelling} of the prelude plus the bare aliases and near-miss spellings (capitalised and doubled prefixes), enumerated on every run. First the decorators as written in the module sources (@aliases with short/long/both/none, @metric_prefixes, @binary_prefixes; read by a parser of our own) are compared with what the session registered for every unit. Expected acceptance comes from the unit's decorators (alias accepts short/long prefixes, unit declares metric/binary prefixes) and an independent prefix table. Accepted => `1 ident` is read (by evaluation and by the session's prefix parser) as exactly that prefix and unit with value 1, and the unit text of its displayed form reads back as the same prefixed unit. Not accepted => it is not read as that unit with that prefix. Uniqueness: over all accepted forms no identifier has two different (prefix, unit) readings and none is a prelude variable or function name. non-trivial = identifier carries a prefix (or a rejected combination); distinct = identifier",
    );
    let cat = prelude_catalogue();
    let cands = build(cfg);
    rep.extra("candidates", json!(cands.len()));
    rep.extra("accepted", json!(cands.iter().filter(|c| c.accepted).count()));
    rep.exhaustive = Some(true);
    // the decorators as written in the module sources against what the session registered
    let mismatches = registration_mismatches();
    rep.stats.evals(cat.units.len() as u64);
    rep.extra("units_with_source_declaration", json!(declared_from_sources().len()));
    if let Some(m) = mismatches.first() {
        rep.violations.push(Violation {
            sub: "registration".into(),
            case: json!({"mismatch": m}),
            failure: Failure::new("declared-acceptance-differs", format!("{m} ({} mismatches in total)", mismatches.len())),
        });
        return rep;
    }
    rep.absorb(run_enumerated(cfg, "table", &cands, cand_json, check));
    // uniqueness over the whole table (single pass, not per candidate)
    if !rep.failed() {
        let mut readings: BTreeMap<String, BTreeSet<(String, Option<usize>)>> = BTreeMap::new();
        for c in cands.iter().filter(|c| c.accepted) {
            readings.entry(c.ident.clone()).or_default().insert((c.unit.clone(), c.prefix));
        }
        rep.stats.evals(readings.len() as u64);
        for (ident, r) in &readings {
            if r.len() > 1 {
                rep.violations.push(Violation {
                    sub: "uniqueness".into(),
                    case: json!({"ident": ident}),
                    failure: Failure::new("ambiguous-identifier", format!("`{ident}` has {} different accepted readings: {:?}", r.len(), r)),
                });
                break;
            }
            if cat.other_names.contains(ident) {
                rep.violations.push(Violation {
                    sub: "uniqueness".into(),
                    case: json!({"ident": ident}),
                    failure: Failure::new("unit-clashes-with-name", format!("`{ident}` is an accepted unit spelling and also a prelude variable/function")),
                });
                break;
            }
        }
        rep.extra("distinct_accepted_identifiers", json!(readings.len()));
    }
    rep
}

fn replay(sub: &str, case: &J) -> CheckResult {
    if sub == "registration" {
        return match registration_mismatches().first() {
            Some(m) => Err(Failure::new("declared-acceptance-differs", m.clone())),
            None => Ok(()),
        };
    }
    if sub == "uniqueness" {
        let cat = prelude_catalogue();
        let ident = case["ident"].as_str().unwrap_or("");
        if cat.readings.get(ident).copied().unwrap_or(0) > 1 {
            return Err(Failure::new("ambiguous-identifier", format!("`{ident}` has several accepted readings")));
        }
        if cat.other_names.contains(ident) && cat.readings.contains_key(ident) {
            return Err(Failure::new("unit-clashes-with-name", format!("`{ident}` is a unit spelling and another name")));
        }
        return Ok(());
    }
    check(&cand_from(case), &mut Stats::default())
}

#!/usr/bin/env python3
"""Regenerates /verif/MANIFEST.json from the table below (kept in one place so it stays valid)."""
import json, subprocess

# id -> (technique, level text, level note, design ref)
CHECKS = {
 "C17": ("exhaustive enumeration of ordered module pairs + proptest subsets/orders; metamorphic oracle (order A vs order B session digests)",
         "All 1891 unordered (3782 ordered) module pairs are imported in both orders into fresh sessions on every run and every definition (function signatures, unit definitions and metadata, dimensions, raw variable values) is compared; random larger subsets in random orders and repeated imports in addition. Exhaustive for pairs, sampled for larger sets.",
         "Trusts the verif-hooks accessors for raw values and unit metadata; module dependency graph (for the non-triviality rule only) is read from `use` lines.",
         "DESIGN.md §4 C17"),
 "C18": ("model-based stateful testing (proptest operation sequences + bounded-exhaustive enumeration) against a Vec model",
         "Every history of 5 (thorough: 6) operations from a 23-operation alphabet over 3 handles is enumerated, plus random histories up to 40 (200) operations over 5 handles and cons/cons_end/tail/head histories through the language; all live handles are compared with a plain Vec model after every step.",
         "The model is a Vec<u32> per handle; element type u32 (the implementation is generic); language layer trusts the raw-global hook.",
         "DESIGN.md §4 C18"),
 "C24": ("exhaustive enumeration of the finite example set; oracle = evaluation succeeds",
         "Every @example of every standard-library function (after `use all`) is executed in a prelude+currencies session on every run; thorough also runs each after random other examples.",
         "Example list comes from the function metadata of the live session; `args()` examples are exempt as the property says.",
         "DESIGN.md §4 C24"),
}

ALL = ["C%02d" % i for i in range(1, 25)]

def main():
    head = subprocess.run(["git", "-C", "/repo", "log", "--format=%H %s"], capture_output=True, text=True).stdout.strip().splitlines()
    hook_commits = [l.split()[0] for l in head if "verif-hooks" in l or "verif hook" in l.lower()]
    checks = []
    for pid in ALL:
        if pid not in CHECKS:
            continue
        tech, text, note, ref = CHECKS[pid]
        checks.append({
            "property_id": pid,
            "quick_cmd": f"./run.sh {pid} quick",
            "thorough_cmd": f"./run.sh {pid} thorough",
            "evidence_file": f"/verif/evidence/{pid}.json",
            "replay_cmd_template": "/verif/target/verif/nbv replay {path}",
            "engine": "nbv",
            "level_claimed": {"category": "exploration", "text": text, "design_ref": ref},
            "level_note": note,
            "technique": tech,
        })
    na = [{"property_id": p, "reason": "check not built yet in this session (planned with the same technique, see DESIGN.md §4)"} for p in ALL if p not in CHECKS]
    m = {
        "version": 1,
        "setup_cmd": "cd /verif/harness && CARGO_NET_OFFLINE=true cargo build --profile verif",
        "hooks": {
            "guard": "cargo feature `verif-hooks` of the numbat crate",
            "enable": "the harness depends on numbat by path (/repo/numbat) with features = [\"verif-hooks\", \"html-formatter\"]; every check command runs `cargo build` first, so it rebuilds from /repo's working tree",
            "baseline_off_cmd": "cd /repo && cargo test --workspace --no-fail-fast --offline",
            "source_commits": hook_commits,
            "add_only": True,
        },
        "engines": [
            {"name": "nbv", "path": "/verif/harness", "serves_properties": [c["property_id"] for c in checks],
             "kind_free_text": "Rust binary: proptest TestRunner (fixed seeds, 16 shards), exhaustive enumerators for the finite domains, reference models, known-finding matcher, replay files, evidence writer"},
        ],
        "checks": checks,
        "not_applicable": na,
        "notes": "Every check: ./run.sh <ID> <tier>; VERIF_SEED selects the PRNG seed (default 0). Exit 0 = held (KNOWN-FINDING lines allowed), 1 = VIOLATION line, 2 = infrastructure trouble. Replay: /verif/target/verif/nbv replay <file>.",
    }
    json.dump(m, open("/verif/MANIFEST.json", "w"), indent=1)
    print("checks:", len(checks), "not_applicable:", len(na))

main()

#!/usr/bin/env python3
"""Regenerates /verif/MANIFEST.json from the table below (kept in one place so it stays valid)."""
import json, subprocess

# id -> (technique, level text, level note, design ref)
CHECKS = {
 "C16": ("proptest unannotated function bodies (symbolic dimension classes) + generated call sites; differential oracle inferred version vs the same body annotated with the printed signature",
         "For each generated unannotated function the signature numbat prints is used to annotate the same body under another name: it must be accepted, every call site (half consistent by construction, half random) must be accepted by both or rejected by both, and accepted calls must agree in result type and value.",
         "Two recorded classes of unparseable printed signatures (alternative dimension names joined by `or`, two-digit superscript exponents) are matched by signature.",
         "DESIGN.md §4 C16"),

 "C01": ("proptest programs from a dimension-directed generator (TypedGen) whose requested dimension vectors are the independent reference; oracle = allowed error kinds + checker type + run-time unit of every value",
         "Programs that are dimensionally consistent by construction (rational/composite/unicode exponents, generic and inferred functions at several dimensions, structs, lists, user dimensions and units, conversions, conditionals) are run statement by statement: no rejection, no unit-incompatibility at run time, the checker's type of every definition equals the generator's vector, and the raw run-time unit of every global, struct field and list element has that dimension (RefDim).",
         "TypedGen's dimension bookkeeping is the reference dimensional analysis; two recorded finding classes (polymorphic literal 0, inexact floating-point exponent) are generated rarely and matched by signature.",
         "DESIGN.md §4 C01"),
 "C02": ("proptest consistent programs + mis-dimensioned variants (one equality site multiplied by a unit of time); two-sided oracle accept/type vs reject/nothing-ran",
         "Each generated multi-statement program must be accepted with the generator's dimension for every definition; each of its 1-3 variants with exactly one equality site mis-dimensioned must be rejected by the type checker as a whole: no print (also none before the bad statement), no definition left, none of its names resolvable.",
         "Equality sites are places where both sides are closed types, so multiplying one side by `3 second` makes the program inconsistent by construction.",
         "DESIGN.md §4 C02"),
 "C09": ("proptest typed AST programs, differential against an independent tree-walking reference evaluator",
         "Programs over integers, booleans, strings with interpolation, structs, lists, functions with where-clauses, shadowing (also by parameters and unit names), bounded recursion, function redefinition, function values and reverse application are evaluated by numbat and by a reference evaluator with static scoping and left-to-right evaluation; prints, every global's raw value, the final result and EmptyList errors must agree.",
         "The reference evaluator implements the evaluation rules for the generated subset only (exact integer arithmetic, no floating-point library functions).",
         "DESIGN.md §4 C09"),
 "C15": ("fixed special-shape sessions + proptest statements from three generators; round-trip oracle input -> echo -> re-evaluation on a clone of the same pre-state, plus idempotence",
         "Every accepted statement of 21 fixed sessions (all printer special cases) and of generated sessions (typed statements, dimension-directed expressions, AST programs) is echoed and the echo evaluated on a clone of the pre-state: accepted, same checker types, same result/prints/defined values, same function, unit and dimension definitions, and echoing the echo reproduces the text.",
         "Values are compared exactly or to 1e-12 (the printer re-associates products); six recorded finding classes are matched by signature; values defined by `use` are not compared (literals with more than 6 digits).",
         "DESIGN.md §4 C15"),

 "C06": ("stateful proptest session histories; metamorphic oracle (history with failing inputs vs the same history without them) + digest invariant after every step",
         "Generated sessions of typed definitions, redefinitions, units, dimensions, structs, imports, expressions and prints interleaved with failing inputs of 16 kinds (every stage; also inputs that define nothing) and `ans` probes around failing inputs, each possibly preceded by successful statements and imports in the same input; after every input the complete definition digests of the two sessions must agree, later inputs must behave identically, names and modules touched by failed inputs are probed at the end.",
         "The session digest (function signatures, unit definitions, dimensions, raw variable values) is what 'the same session' means; source labels are not compared.",
         "DESIGN.md §4 C06"),
 "C07": ("stateful proptest histories with random partitions and clone points; differential oracle line-by-line vs chunked vs joined vs saved-and-replayed, and clone vs never-cloned sessions",
         "Histories of successful inputs (including redefinitions, function values, ans/_) are run line by line, in random chunks, as one input, and through CommandRunner `save` + replay; prints, per-input results and definition digests must agree, the saved file must hold exactly the trimmed successful inputs, and a cloned session continued differently (random continuation, or the original's continuation without its unit definitions) must show the same results and prints and end in the same definitions as a never-cloned one.",
         "Digest as in C06; scratch history files live under /verif/target/scratch.",
         "DESIGN.md §4 C07"),
 "C08": ("proptest input generation (calls of every prelude function with typed edge-value arguments, character-level continuations from an alphabet read from the tokenizer sources, token soup, corpus mutation, extreme-value templates, corrupted programs, nesting, bytes) + complete enumeration of two-character continuations + (thorough) libFuzzer target `interp` with the same oracle; oracle = no panic, diagnostics render, session stays usable, bounded CPU time",
         "About 62 000 inputs per quick run (1.6 M thorough plus 6.4 M libFuzzer executions) in fresh / prelude / prelude+definitions sessions with debug assertions and overflow checks on; every error's diagnostics are rendered through codespan; panics are keyed by file + message and compared with the recorded findings.",
         "In-process: native stack overflow (nesting beyond the generator's bound) and memory exhaustion cannot be observed and end the run with exit 2; a VM step budget (hook) stops unbounded recursion and is reported as inconclusive.",
         "DESIGN.md §4 C08"),
 "C10": ("proptest token sequences (grammar-directed trees with minimal parentheses, token mutations, soup) differential against a reference recursive-descent parser written from the documented EBNF and precedence table",
         "About ten million token sequences per quick run (48 M thorough plus 64 M libFuzzer executions of the `parse` target) over all documented operator spellings and literal forms; numbat's syntax tree (hook, S-expression) must equal the reference parser's tree, and inputs the reference rejects must be rejected; the book's examples are fixed seeds with hand-written trees.",
         "The reference parser encodes the EBNF plus three observed conventions stated in the evidence assumptions; tokenizer-level invalid literals are not generated.",
         "DESIGN.md §4 C10"),
 "C22": ("proptest programs run through the real CLI binary three ways; differential oracle against the library in process and between FILE and -e",
         "Generated programs (succeeding, or failing at any stage and position) are executed with the numbat binary built from the working tree as FILE, as -e arguments and with --pretty-print always in a sealed environment; exit status, stdout and stderr are checked against the library's outcome and against each other.",
         "The CLI is a debug build made by run.sh from /repo; only non-interactive invocations are covered.",
         "DESIGN.md §4 C22"),

 "C03": ("exhaustive leaf sweep over all unit spellings + proptest expression trees; differential oracle against exact dimensional arithmetic (RefDim) over the direct unit definitions",
         "Every single-identifier spelling of every prelude unit (alias x accepted prefix, long and short) is evaluated on every run, and depth-bounded random expression trees (* / ^ + - unary minus, dyadic rational exponents, respelled same-dimension operands) are compared in base units with an independent evaluation: exponent vectors exactly, magnitudes to 1e-9.",
         "The direct unit definitions exported by the hook are the specification (a wrong constant in a .nbt file is out of reach); RefDim's recursion, prefix table and extended-exponent arithmetic are trusted.",
         "DESIGN.md §4 C03"),
 "C04": ("exhaustive enumeration of ordered same-dimension unit pairs + proptest compound unit expressions; oracle = requested factor list, RefDim physical value, round trip, via-intermediate agreement, displayed form",
         "All 2105 ordered same-dimension unit pairs x sampled magnitudes (0, 1, negative, large) plus generated compound conversions with shared factors, expansions by definition and right-hand magnitudes; each conversion is checked for exactly the requested unit (raw factor list and display), unchanged physical value, restoring round trip and agreement through an intermediate unit.",
         "RefDim base factors (1e-12 accurate) decide 'same quantity' at 1e-9; the display parser reads `n unit` / `n x k unit` texts.",
         "DESIGN.md §4 C04"),
 "C05": ("proptest unit products + enumerated unit pairs + fixed seeds; metamorphic oracle raw value vs displayed/printed/interpolated value",
         "The unsimplified value of `let v = e` (hook) is compared with what the three display paths show: same base-unit vector, same magnitude (1e-9), identical text on all paths, converting the displayed value back restores the raw magnitude, and `e -> U` keeps exactly U.",
         "RefDim as in C03; one recorded finding class (overflow when merging into extreme units) is matched by signature and reported as KNOWN-FINDING.",
         "DESIGN.md §4 C05"),
 "C11": ("exhaustive enumeration of ordered same-dimension unit pairs x magnitude regimes; algebraic laws + reference ordering",
         "Twelve comparisons per operand pair for all ordered unit pairs in separated, converted, ulp-neighbourhood, NaN, inf, zero and same-unit regimes; mirror symmetry, negation, trichotomy and NaN laws are checked and, for separated operands, agreement with the RefDim ordering.",
         "The recorded operand-order rounding asymmetry is keyed on 'exact ratio within 2^-40 of 1'; everything else is reported.",
         "DESIGN.md §4 C11"),
 "C12": ("exhaustive enumeration of ordered same-dimension unit pairs; metamorphic oracle (a+b vs b+a, a-b vs -(b-a)) + reference sum",
         "All ordered unit pairs with signed magnitudes, zero operands, opposite operands, compound units and three-operand sums in 8 orders: physical agreement between orders and with the RefDim sum, identical unit/value/display when the units differ in size.",
         "RefDim decides 'differ in size' (1e-9) and the reference sums.",
         "DESIGN.md §4 C12"),
 "C13": ("exhaustive enumeration of the finite alias x prefix x spelling table; oracle = decorators + independent prefix table",
         "All ~33 000 candidate identifiers (every alias with every long and short prefix spelling, bare aliases, near misses) are classified on every run by evaluation and by the session's prefix parser; accepted forms must read as exactly (prefix, unit) with value 1 and display in a form that reads back; rejected forms must not read as that unit; uniqueness over the whole table.",
         "The decorators as written in the module sources (own parser) are compared with the unit metadata the session registered, and acceptance in the table is derived from that metadata; the arcsecond `″` finding is keyed per unit.",
         "DESIGN.md §4 C13"),
 "C14": ("proptest over f64 classes x format options; round-trip oracle (displayed text -> literal -> value) against Rust's exact decimal formatting",
         "8 M (thorough 64 M) values from targeted f64 classes with every documented separator, thresholds 1-10 and 1-17 significant digits: keywords for NaN/inf, the text re-read by Rust and by numbat gives x rounded to the shown digits (either neighbour within 1 ulp of a midpoint), integers below 2^53 keep all digits and are grouped iff the threshold is reached.",
         "Rust's `{:.Ne}` formatting is the reference rounding.",
         "DESIGN.md §4 C14"),
 "C19": ("proptest over instants x zones x durations; oracle = independent integer-nanosecond arithmetic + algebraic relations + format/parse round trip",
         "Instants over the whole supported range in 16 IANA zones with durations in 14 units across 10 orders of magnitude: t+d equals the integer-nanosecond result, (t+d)-t = d, (t+d)-d = t, zone conversion keeps the instant, full-precision formatting parses back to the same instant, and out-of-range results are errors of the out-of-range kinds.",
         "jiff's Timestamp <-> civil conversion is used by the harness to write the instants; seconds per unit come from RefDim.",
         "DESIGN.md §4 C19"),
 "C20": ("proptest payloads x input templates; oracle = tag whitelist + un-escape round trip against the plain-text rendering",
         "36 templates covering results, prints, echoes and every error stage, with payloads built from HTML metacharacters: the HTML rendering (HtmlFormatter / HtmlWriter exactly as numbat-wasm uses them) may contain only the renderer's own spans, and un-escaping the rest must reproduce the plain rendering.",
         "The plain renderings (PlainTextFormatter, termcolor::NoColor) are the reference text.",
         "DESIGN.md §4 C20"),
 "C21": ("proptest assertions with reference truth values (boolean trees, exact dyadic arithmetic, RefDim-separated quantities) + marker statements",
         "assert / assert_eq(a,b) / assert_eq(a,b,eps) over booleans, quantities in equal and different units (including the exact boundary |a-b| = eps and NaN), strings and lists; success iff the documented predicate, the right failure kind, and nothing after a failed assertion runs.",
         "Expected outcomes are decided exactly (dyadic values) or with a margin >= 10 % (different units).",
         "DESIGN.md §4 C21"),
 "C23": ("proptest over each inverse pair's domain; round-trip oracle with per-pair tolerances",
         "Temperature scales, 19 scalar inverse compositions, Unix time in s/ms/µs, Unix/Julian instants, unit_list and the fixed mixed-unit conversions: g(f(x)) = x within a stated per-pair tolerance; mixed-unit parts add up, are whole numbers but the last, descending and non-negative.",
         "Tolerances are derived from conditioning and stated in the harness source.",
         "DESIGN.md §4 C23"),

 "C17": ("exhaustive enumeration of ordered module pairs + proptest subsets/orders; metamorphic oracle (order A vs order B session digests)",
         "All 1891 unordered (3782 ordered) module pairs are imported in both orders into fresh sessions on every run and every definition (function signatures, unit definitions and metadata, dimensions, raw variable values) is compared; random larger subsets in random orders and repeated imports in addition. Exhaustive for pairs, sampled for larger sets.",
         "Trusts the verif-hooks accessors for raw values and unit metadata; module dependency graph (for the non-triviality rule only) is read from `use` lines.",
         "DESIGN.md §4 C17"),
 "C18": ("model-based stateful testing (proptest operation sequences + bounded-exhaustive enumeration) against a Vec model",
         "Every history of 5 (thorough: 6) operations from a 23-operation alphabet over 3 handles is enumerated, plus random histories up to 40 (200) operations over 5 handles and cons/cons_end/tail/head histories through the language; all live handles are compared with a plain Vec model after every step.",
         "The model is a Vec<u32> per handle; element type u32 (the implementation is generic); language layer trusts the raw-global hook.",
         "DESIGN.md §4 C18"),
 "C24": ("exhaustive enumeration of the finite example set; oracle = evaluation succeeds",
         "Every @example of every standard-library function (after `use all`) is executed in a prelude+currencies session on every run; thorough also runs each after random other examples.",
         "Example list comes from the function metadata of the live session; `args()` examples are exempt as the property says.",
         "DESIGN.md §4 C24"),
}

ALL = ["C%02d" % i for i in range(1, 25)]

def main():
    head = subprocess.run(["git", "-C", "/repo", "log", "--format=%H %s"], capture_output=True, text=True).stdout.strip().splitlines()
    hook_commits = [l.split()[0] for l in head if "verif-hooks" in l or "verif hook" in l.lower()]
    checks = []
    for pid in ALL:
        if pid not in CHECKS:
            continue
        tech, text, note, ref = CHECKS[pid]
        checks.append({
            "property_id": pid,
            "quick_cmd": f"./run.sh {pid} quick",
            "thorough_cmd": f"./run.sh {pid} thorough",
            "evidence_file": f"/verif/evidence/{pid}.json",
            "replay_cmd_template": "/verif/target/verif/nbv replay {path}",
            "engine": "nbv",
            "level_claimed": {"category": "exploration", "text": text, "design_ref": ref},
            "level_note": note,
            "technique": tech,
        })
    na = [{"property_id": p, "reason": "check not built yet in this session (planned with the same technique, see DESIGN.md §4)"} for p in ALL if p not in CHECKS]
    m = {
        "version": 1,
        "setup_cmd": "cd /verif/harness && CARGO_NET_OFFLINE=true cargo build --profile verif",
        "hooks": {
            "guard": "cargo feature `verif-hooks` of the numbat crate",
            "enable": "the harness depends on numbat by path (/repo/numbat) with features = [\"verif-hooks\", \"html-formatter\"]; every check command runs `cargo build` first, so it rebuilds from /repo's working tree",
            "baseline_off_cmd": "cd /repo && cargo test --workspace --no-fail-fast --offline",
            "source_commits": hook_commits,
            "add_only": True,
        },
        "engines": [
            {"name": "nbv", "path": "/verif/harness", "serves_properties": [c["property_id"] for c in checks],
             "kind_free_text": "Rust binary: proptest TestRunner (fixed seeds, 16 shards), exhaustive enumerators for the finite domains, reference models, known-finding matcher, replay files, evidence writer"},
            {"name": "nbv-fuzz", "path": "/verif/fuzz", "serves_properties": ["C08", "C10"],
             "kind_free_text": "cargo-fuzz crate (libFuzzer, nightly): targets `interp` and `parse` call the harness oracles; built and driven by nbv in the thorough tiers (16 jobs, seeds derived from VERIF_SEED, artifacts replayed in process)"},
        ],
        "checks": checks,
        "not_applicable": na,
        "notes": "Every check: ./run.sh <ID> <tier>; VERIF_SEED selects the PRNG seed (default 0). Exit 0 = held (KNOWN-FINDING lines allowed), 1 = VIOLATION line, 2 = infrastructure trouble. Replay: /verif/target/verif/nbv replay <file>.",
    }
    json.dump(m, open("/verif/MANIFEST.json", "w"), indent=1)
    print("checks:", len(checks), "not_applicable:", len(na))

main()

//! C18 — lists behave as immutable values despite internal sharing.
//!
//! Histories of list operations over several live handles, applied to `NumbatList<u32>` and to
//! a model of plain `Vec<u32>`s; every live handle is compared with its model after every step.
//! A second layer drives the same kind of history through the language.

use crate::engine::*;
use crate::gen_util::*;
use crate::session::*;
use crate::PropDef;
use numbat::list::NumbatList;
use numbat::verif_hooks::VValue;
use proptest::prelude::*;
use serde::{Deserialize, Serialize};
use serde_json::{Value as J, json};

pub fn def() -> PropDef {
    PropDef {
        id: "C18",
        run,
        replay,
    }
}

const HANDLES: usize = 5;

#[derive(Clone, Debug, Serialize, Deserialize, PartialEq)]
pub enum Op {
    New(usize),
    WithCapacity(usize, usize),
    PushFront(usize, u32),
    PushBack(usize, u32),
    Tail(usize),
    /// `clone().head()` – observes the head without consuming the handle
    HeadOfClone(usize),
    /// `head()` consuming the handle
    HeadConsume(usize),
    CloneTo(usize, usize),
    Drop(usize),
}

fn op_strategy(handles: usize) -> impl Strategy<Value = Op> {
    let h = 0..handles;
    prop_oneof![
        1 => h.clone().prop_map(Op::New),
        1 => (h.clone(), 0usize..6).prop_map(|(a, c)| Op::WithCapacity(a, c)),
        4 => (h.clone(), 0u32..100).prop_map(|(a, v)| Op::PushFront(a, v)),
        4 => (h.clone(), 0u32..100).prop_map(|(a, v)| Op::PushBack(a, v)),
        4 => h.clone().prop_map(Op::Tail),
        2 => h.clone().prop_map(Op::HeadOfClone),
        1 => h.clone().prop_map(Op::HeadConsume),
        5 => (h.clone(), h.clone()).prop_map(|(a, b)| Op::CloneTo(a, b)),
        1 => h.prop_map(Op::Drop),
    ]
}

struct World {
    real: Vec<Option<NumbatList<u32>>>,
    model: Vec<Option<Vec<u32>>>,
    /// sharing group per handle (model of "may share storage")
    group: Vec<usize>,
    next_group: usize,
    /// was a handle mutated while another live handle was in the same group?
    mutated_while_shared: bool,
    view_mutation: bool,
}

impl World {
    fn new(n: usize) -> World {
        World {
            real: (0..n).map(|_| None).collect(),
            model: (0..n).map(|_| None).collect(),
            group: (0..n).collect(),
            next_group: n,
            mutated_while_shared: false,
            view_mutation: false,
        }
    }

    fn shared(&self, h: usize) -> bool {
        (0..self.real.len()).any(|o| o != h && self.real[o].is_some() && self.group[o] == self.group[h])
    }

    fn fresh_group(&mut self, h: usize) {
        self.group[h] = self.next_group;
        self.next_group += 1;
    }

    fn apply(&mut self, op: &Op) -> Result<(), String> {
        match op {
            Op::New(h) => {
                self.real[*h] = Some(NumbatList::new());
                self.model[*h] = Some(vec![]);
                self.fresh_group(*h);
            }
            Op::WithCapacity(h, c) => {
                self.real[*h] = Some(NumbatList::with_capacity(*c));
                self.model[*h] = Some(vec![]);
                self.fresh_group(*h);
            }
            Op::PushFront(h, v) => {
                if self.real[*h].is_some() {
                    if self.shared(*h) {
                        self.mutated_while_shared = true;
                    }
                    self.real[*h].as_mut().unwrap().push_front(*v);
                    self.model[*h].as_mut().unwrap().insert(0, *v);
                    self.fresh_group(*h);
                }
            }
            Op::PushBack(h, v) => {
                if self.real[*h].is_some() {
                    if self.shared(*h) {
                        self.mutated_while_shared = true;
                    }
                    self.real[*h].as_mut().unwrap().push_back(*v);
                    self.model[*h].as_mut().unwrap().push(*v);
                    self.fresh_group(*h);
                }
            }
            Op::Tail(h) => {
                if self.real[*h].is_some() {
                    let r = self.real[*h].as_mut().unwrap().tail();
                    let m = self.model[*h].as_mut().unwrap();
                    if m.is_empty() {
                        if r.is_ok() {
                            return Err(format!("tail of empty list {h} succeeded"));
                        }
                    } else {
                        if r.is_err() {
                            return Err(format!("tail of non-empty list {h} failed"));
                        }
                        m.remove(0);
                        if self.shared(*h) {
                            self.mutated_while_shared = true;
                            self.view_mutation = true;
                        }
                    }
                }
            }
            Op::HeadOfClone(h) => {
                if let Some(l) = &self.real[*h] {
                    let got = l.clone().head();
                    let want = self.model[*h].as_ref().unwrap().first().copied();
                    if got != want {
                        return Err(format!("head of clone of {h}: got {got:?}, model {want:?}"));
                    }
                }
            }
            Op::HeadConsume(h) => {
                if let Some(l) = self.real[*h].take() {
                    let got = l.head();
                    let want = self.model[*h].take().unwrap().first().copied();
                    if got != want {
                        return Err(format!("head (consuming) of {h}: got {got:?}, model {want:?}"));
                    }
                }
            }
            Op::CloneTo(a, b) => {
                if a != b && self.real[*a].is_some() {
                    self.real[*b] = self.real[*a].clone();
                    self.model[*b] = self.model[*a].clone();
                    self.group[*b] = self.group[*a];
                }
            }
            Op::Drop(h) => {
                self.real[*h] = None;
                self.model[*h] = None;
            }
        }
        Ok(())
    }

    fn check_all(&self) -> Result<(), String> {
        for h in 0..self.real.len() {
            if let (Some(r), Some(m)) = (&self.real[h], &self.model[h]) {
                let elems: Vec<u32> = r.iter().copied().collect();
                if &elems != m {
                    return Err(format!("handle {h} holds {elems:?}, model holds {m:?}"));
                }
                if r.len() != m.len() {
                    return Err(format!("handle {h}: len {} vs model {}", r.len(), m.len()));
                }
                if r.is_empty() != m.is_empty() {
                    return Err(format!("handle {h}: is_empty mismatch"));
                }
                for o in 0..self.real.len() {
                    if let (Some(ro), Some(mo)) = (&self.real[o], &self.model[o]) {
                        if (r == ro) != (m == mo) {
                            return Err(format!(
                                "handles {h} and {o}: == gives {}, model {}",
                                r == ro,
                                m == mo
                            ));
                        }
                    }
                }
            }
        }
        Ok(())
    }
}

fn check_history(ops: &[Op], handles: usize, st: &mut Stats) -> CheckResult {
    st.eval();
    let mut w = World::new(handles);
    for (i, op) in ops.iter().enumerate() {
        w.apply(op).map_err(|e| {
            Failure::new("list-model-mismatch", format!("step {i} ({op:?}): {e}"))
        })?;
        w.check_all().map_err(|e| {
            Failure::new("list-model-mismatch", format!("after step {i} ({op:?}): {e}"))
        })?;
    }
    if w.mutated_while_shared {
        st.label("mutation-while-shared");
        if w.view_mutation {
            st.label("tail-on-shared-storage");
        }
        st.nontrivial_with_sample(hash_str(&format!("{ops:?}")), || json!({"ops": format!("{ops:?}")}));
    }
    Ok(())
}

// ------------------------------------------------------------------------------------------
// bounded-exhaustive enumeration
// ------------------------------------------------------------------------------------------

fn exhaustive_alphabet(handles: usize) -> Vec<Op> {
    let mut a = vec![];
    for h in 0..handles {
        a.push(Op::New(h));
        a.push(Op::PushFront(h, 7));
        a.push(Op::PushBack(h, 9));
        a.push(Op::Tail(h));
        a.push(Op::HeadOfClone(h));
        for o in 0..handles {
            if o != h {
                a.push(Op::CloneTo(h, o));
            }
        }
    }
    a.push(Op::Drop(0));
    a.push(Op::HeadConsume(1));
    a
}

/// Enumerates all sequences of `len` ops following a fixed prefix. Values pushed are distinct per
/// step (step index is added) so that misplaced elements are visible.
fn enumerate_from(prefix: &[Op], alphabet: &[Op], len: usize, st: &mut Stats) -> CheckResult {
    fn rec(
        seq: &mut Vec<Op>,
        alphabet: &[Op],
        remaining: usize,
        st: &mut Stats,
    ) -> CheckResult {
        if remaining == 0 {
            return check_history(seq, 3, st);
        }
        for op in alphabet {
            let depth = seq.len() as u32;
            let op = match op {
                Op::PushFront(h, v) => Op::PushFront(*h, v + depth * 10),
                Op::PushBack(h, v) => Op::PushBack(*h, v + depth * 10),
                o => o.clone(),
            };
            seq.push(op);
            let r = rec(seq, alphabet, remaining - 1, st);
            seq.pop();
            r?;
        }
        Ok(())
    }
    let mut seq = prefix.to_vec();
    rec(&mut seq, alphabet, len, st)
}

// ------------------------------------------------------------------------------------------
// language layer
// ------------------------------------------------------------------------------------------

#[derive(Clone, Debug, Serialize, Deserialize)]
pub enum LOp {
    Literal(usize, Vec<u32>),
    Cons(usize, usize, u32),
    ConsEnd(usize, usize, u32),
    Tail(usize, usize),
    Copy(usize, usize),
    /// redefine handle as cons(head(src), tail(src)) – exercises head on shared storage
    Rebuild(usize, usize),
}

fn lop_strategy() -> impl Strategy<Value = LOp> {
    let h = 0..4usize;
    prop_oneof![
        2 => (h.clone(), proptest::collection::vec(0u32..50, 0..5)).prop_map(|(a, v)| LOp::Literal(a, v)),
        4 => (h.clone(), h.clone(), 0u32..50).prop_map(|(a, b, v)| LOp::Cons(a, b, v)),
        4 => (h.clone(), h.clone(), 0u32..50).prop_map(|(a, b, v)| LOp::ConsEnd(a, b, v)),
        4 => (h.clone(), h.clone()).prop_map(|(a, b)| LOp::Tail(a, b)),
        3 => (h.clone(), h.clone()).prop_map(|(a, b)| LOp::Copy(a, b)),
        1 => (h.clone(), h).prop_map(|(a, b)| LOp::Rebuild(a, b)),
    ]
}

fn vvalue_to_u32s(v: &VValue) -> Option<Vec<u32>> {
    match v {
        VValue::List(items) => items
            .iter()
            .map(|i| match i {
                VValue::Quantity(q) if q.factors.is_empty() => Some(q.value as u32),
                _ => None,
            })
            .collect(),
        _ => None,
    }
}

fn check_language_history(ops: &[LOp], st: &mut Stats) -> CheckResult {
    st.eval();
    let mut ctx = prelude();
    let mut model: Vec<Option<Vec<u32>>> = vec![None; 4];
    let mut derived = false;
    let fail = |what: String| Failure::new("language-list-mismatch", what);
    for (i, op) in ops.iter().enumerate() {
        let (dst, code, expect): (usize, String, Option<Vec<u32>>) = match op {
            LOp::Literal(a, v) => {
                let text = if v.is_empty() {
                    // an empty literal needs an element type: build it as the tail of [0]
                    "tail([0])".to_string()
                } else {
                    format!("[{}]", v.iter().map(|x| x.to_string()).collect::<Vec<_>>().join(", "))
                };
                (*a, text, Some(v.clone()))
            }
            LOp::Cons(a, b, v) => match &model[*b] {
                Some(m) => {
                    let mut n = m.clone();
                    n.insert(0, *v);
                    (*a, format!("cons({v}, l{b})"), Some(n))
                }
                None => continue,
            },
            LOp::ConsEnd(a, b, v) => match &model[*b] {
                Some(m) => {
                    let mut n = m.clone();
                    n.push(*v);
                    (*a, format!("cons_end({v}, l{b})"), Some(n))
                }
                None => continue,
            },
            LOp::Tail(a, b) => match &model[*b] {
                Some(m) if !m.is_empty() => (*a, format!("tail(l{b})"), Some(m[1..].to_vec())),
                Some(_) => (*a, format!("tail(l{b})"), None),
                None => continue,
            },
            LOp::Copy(a, b) => match &model[*b] {
                Some(m) => (*a, format!("l{b}"), Some(m.clone())),
                None => continue,
            },
            LOp::Rebuild(a, b) => match &model[*b] {
                Some(m) if !m.is_empty() => {
                    (*a, format!("cons(head(l{b}), tail(l{b}))"), Some(m.clone()))
                }
                _ => continue,
            },
        };
        if !matches!(op, LOp::Literal(..)) {
            derived = true;
        }
        let o = eval(&mut ctx, &format!("let l{dst} = {code}"));
        if let Some((loc, msg)) = &o.panic {
            return Err(Failure::new(format!("panic:{loc}"), format!("step {i} {op:?}: panic {msg}")));
        }
        match expect {
            None => {
                if o.err_kind() != Some("EmptyList") {
                    return Err(fail(format!("step {i} {op:?}: expected EmptyList error, got {}", o.summary())));
                }
            }
            Some(n) => {
                if !o.ok() {
                    return Err(fail(format!("step {i} {op:?}: unexpected {}", o.summary())));
                }
                model[dst] = Some(n);
            }
        }
        // every live list still holds its model's elements
        for h in 0..4 {
            if let Some(m) = &model[h] {
                let v = ctx.verif_raw_global(&format!("l{h}"));
                let got = v.as_ref().and_then(vvalue_to_u32s);
                if got.as_ref() != Some(m) {
                    return Err(fail(format!(
                        "after step {i} {op:?}: l{h} holds {got:?}, model {m:?}"
                    )));
                }
            }
        }
    }
    // len and == through the language
    let mut probes = String::new();
    let mut expected: Vec<String> = vec![];
    for h in 0..4 {
        if let Some(m) = &model[h] {
            probes.push_str(&format!("print(len(l{h}))\n"));
            expected.push(m.len().to_string());
            for o in 0..4 {
                if let Some(mo) = &model[o] {
                    probes.push_str(&format!("print(l{h} == l{o})\n"));
                    expected.push((m == mo).to_string());
                }
            }
        }
    }
    if !probes.is_empty() {
        let o = eval(&mut ctx, &probes);
        if !o.ok() || o.prints != expected {
            return Err(fail(format!(
                "len/== probes: expected {expected:?}, got {:?} ({})",
                o.prints,
                o.summary()
            )));
        }
    }
    if derived && model.iter().filter(|m| m.is_some()).count() >= 2 {
        st.label("language-derived-lists");
        st.nontrivial_with_sample(hash_str(&format!("{ops:?}")), || json!({"language_ops": format!("{ops:?}")}));
    }
    Ok(())
}

fn run(cfg: &Cfg) -> Report {
    let mut rep = Report::new(
        cfg,
        "histories of list operations (new, with_capacity, push_front, push_back, tail, head of a clone, consuming head, clone, drop) over up to 5 live NumbatList<u32> handles, compared after every step (elements, len, is_empty, pairwise ==) with a model of plain Vec<u32>; random histories via proptest plus bounded-exhaustive enumeration of all histories over 3 handles; a second layer runs cons/cons_end/tail/head/len/== histories through the language on let-bound lists. non-trivial = a handle is mutated (push or tail) while another live handle may share its storage (a clone of it exists); distinct = operation sequence",
    );
    // 1. bounded-exhaustive
    let alphabet = exhaustive_alphabet(3);
    let depth = cfg.tier.pick(5usize, 6usize);
    // split the enumeration by the first two operations so it parallelises
    let mut prefixes = vec![];
    for a in &alphabet {
        for b in &alphabet {
            prefixes.push(vec![a.clone(), b.clone()]);
        }
    }
    rep.extra("exhaustive_alphabet_size", json!(alphabet.len()));
    rep.extra("exhaustive_depth", json!(depth));
    rep.absorb(run_enumerated(
        cfg,
        "exhaustive",
        &prefixes,
        |p| json!({"prefix": p, "depth": depth}),
        |p, st| enumerate_from(p, &alphabet, depth - 2, st),
    ));
    // 2. random histories
    if !rep.failed() {
        let max_len = cfg.tier.pick(40usize, 200usize);
        let cases = cfg.tier.pick(20000u32, 100000u32);
        rep.absorb(run_proptest(
            cfg,
            "random",
            cases,
            || proptest::collection::vec(op_strategy(HANDLES), 1..max_len),
            |ops| json!({"ops": ops}),
            |ops, st| check_history(ops, HANDLES, st),
        ));
    }
    // 3. language layer
    if !rep.failed() {
        let cases = cfg.tier.pick(1500u32, 8000u32);
        rep.absorb(run_proptest(
            cfg,
            "language",
            cases,
            || proptest::collection::vec(lop_strategy(), 1..25),
            |ops: &Vec<LOp>| json!({"lops": ops}),
            |ops: &Vec<LOp>, st| check_language_history(ops, st),
        ));
    }
    rep.exhaustive = Some(false);
    rep.extra(
        "bounded_exhaustive",
        json!(format!("all {}^{} histories over 3 handles were enumerated", alphabet.len(), depth)),
    );
    let _ = idx;
    rep
}

fn replay(sub: &str, case: &J) -> CheckResult {
    let mut st = Stats::default();
    match sub {
        "exhaustive" => {
            let prefix: Vec<Op> = serde_json::from_value(case["prefix"].clone()).unwrap_or_default();
            let depth = case["depth"].as_u64().unwrap_or(5) as usize;
            enumerate_from(&prefix, &exhaustive_alphabet(3), depth.saturating_sub(prefix.len()), &mut st)
        }
        "language" => {
            let ops: Vec<LOp> = serde_json::from_value(case["lops"].clone()).unwrap_or_default();
            check_language_history(&ops, &mut st)
        }
        _ => {
            let ops: Vec<Op> = serde_json::from_value(case["ops"].clone()).unwrap_or_default();
            check_history(&ops, HANDLES, &mut st)
        }
    }
}

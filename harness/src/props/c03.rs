//! C03 — quantity arithmetic agrees with dimensional analysis of unit definitions.

use super::pairs::*;
use crate::engine::*;
use crate::gen_util::*;
use crate::refmodel::units::*;
use crate::session::*;
use crate::PropDef;
use numbat::verif_hooks::VValue;
use proptest::prelude::*;
use serde::{Deserialize, Serialize};
use serde_json::{Value as J, json};

pub fn def() -> PropDef {
    PropDef {
        id: "C03",
        run,
        replay,
    }
}

// ------------------------------------------------------------------------------------------
// expression trees
// ------------------------------------------------------------------------------------------

#[derive(Clone, Debug, Serialize, Deserialize)]
pub enum T {
    /// magnitude index, unit index, form index
    Leaf(u16, u16, u16),
    Num(u16),
    Mul(Box<T>, Box<T>),
    Div(Box<T>, Box<T>),
    Pow(Box<T>, u8),
    /// left + respelled(left, seed)
    Add(Box<T>, u32),
    /// left - respelled(left, seed)
    Sub(Box<T>, u32),
    Neg(Box<T>),
}

pub const POW_EXPS: [(i128, i128); 12] = [
    (2, 1),
    (-1, 1),
    (3, 1),
    (-2, 1),
    (-3, 1),
    (1, 2),
    (-1, 2),
    (3, 2),
    (1, 4),
    (1, 1),
    (1, 3),
    (2, 3),
];

const MAGS: [f64; 14] = [
    1.0, 2.0, 2.5, 0.5, 1e3, 1e-3, 12.75, 3e6, 7e-6, 0.1, 123456.0, 1e-9, 4.2e9, 9.99,
];

pub fn tree_strategy(depth: u32) -> impl Strategy<Value = T> {
    let leaf = prop_oneof![
        6 => (idx(), idx(), idx()).prop_map(|(m, u, f)| T::Leaf(m, u, f)),
        1 => idx().prop_map(T::Num),
    ];
    leaf.prop_recursive(depth, 24, 2, |inner| {
        prop_oneof![
            3 => (inner.clone(), inner.clone()).prop_map(|(a, b)| T::Mul(Box::new(a), Box::new(b))),
            3 => (inner.clone(), inner.clone()).prop_map(|(a, b)| T::Div(Box::new(a), Box::new(b))),
            2 => (inner.clone(), 0u8..12).prop_map(|(a, e)| T::Pow(Box::new(a), e)),
            2 => (inner.clone(), any::<u32>()).prop_map(|(a, s)| T::Add(Box::new(a), s)),
            2 => (inner.clone(), any::<u32>()).prop_map(|(a, s)| T::Sub(Box::new(a), s)),
            1 => inner.prop_map(|a| T::Neg(Box::new(a))),
        ]
    })
}

/// A rendered tree: source text, reference physical value, statistics.
pub struct Rendered {
    pub src: String,
    pub phys: Phys,
    pub leaves: usize,
    pub distinct_units: std::collections::BTreeSet<usize>,
    pub has_derived_or_prefixed: bool,
    pub operators: usize,
    pub non_dyadic_exponent: bool,
    pub levels: usize,
    pub forms: Vec<String>,
}

struct R<'a> {
    cat: &'a Catalogue,
    out: Rendered,
}

fn respell(t: &T, seed: u64) -> T {
    match t {
        T::Leaf(m, u, f) => {
            let r = splitmix64(seed ^ (*u as u64) << 16 ^ *f as u64 ^ (*m as u64) << 32);
            // marker: the top bit of the form index asks `render` to pick another unit of the group
            T::Leaf((r >> 8) as u16, *u, (r as u16) | 0x8000)
        }
        T::Num(m) => T::Num(m.wrapping_add(seed as u16)),
        T::Mul(a, b) => T::Mul(Box::new(respell(a, seed ^ 1)), Box::new(respell(b, seed ^ 2))),
        T::Div(a, b) => T::Div(Box::new(respell(a, seed ^ 3)), Box::new(respell(b, seed ^ 4))),
        T::Pow(a, e) => T::Pow(Box::new(respell(a, seed ^ 5)), *e),
        T::Add(a, s) => T::Add(Box::new(respell(a, seed ^ 6)), *s),
        T::Sub(a, s) => T::Sub(Box::new(respell(a, seed ^ 7)), *s),
        T::Neg(a) => T::Neg(Box::new(respell(a, seed ^ 8))),
    }
}

impl R<'_> {
    /// returns (source, physical value, level, may-be-negative (a structural property, so
    /// that a respelled copy of a tree makes the same choices))
    fn go(&mut self, t: &T) -> (String, Phys, usize, bool) {
        match t {
            T::Leaf(m, u, f) => {
                let mut ui = pick_idx(*u, self.cat.units.len());
                let mut fi = *f;
                if fi & 0x8000 != 0 {
                    // respelled leaf: another unit of the same dimension group
                    let group = self.cat.groups.iter().find(|g| g.contains(&ui)).unwrap();
                    ui = group[pick_idx(fi.wrapping_mul(40503), group.len())];
                    fi &= 0x7fff;
                    fi = fi.wrapping_mul(2);
                }
                let forms = self.cat.usable_forms(ui);
                let (ident, factor, prefix) = forms[pick_idx(fi, forms.len())].clone();
                let mag = MAGS[pick_idx(*m, MAGS.len())];
                self.out.leaves += 1;
                self.out.distinct_units.insert(ui);
                if prefix.is_some() || !self.cat.units[ui].def.is_base {
                    self.out.has_derived_or_prefixed = true;
                }
                self.out.forms.push(ident.clone());
                (
                    format!("{} {}", lit(mag), ident),
                    Phys {
                        mag: mag * factor,
                        vec: self.cat.units[ui].base_units.clone(),
                    },
                    0,
                    false,
                )
            }
            T::Num(m) => {
                let mag = MAGS[pick_idx(*m, MAGS.len())];
                (lit(mag), Phys::scalar(mag), 0, false)
            }
            T::Mul(a, b) => {
                let (sa, pa, la, na) = self.go(a);
                let (sb, pb, lb, nb) = self.go(b);
                self.out.operators += 1;
                (format!("({sa}) * ({sb})"), pa.mul(&pb), la.max(lb) + 1, na || nb)
            }
            T::Div(a, b) => {
                let (sa, pa, la, na) = self.go(a);
                let (sb, pb, lb, nb) = self.go(b);
                self.out.operators += 1;
                (format!("({sa}) / ({sb})"), pa.div(&pb), la.max(lb) + 1, na || nb)
            }
            T::Pow(a, e) => {
                let (sa, pa, la, na) = self.go(a);
                let mut e = POW_EXPS[*e as usize % POW_EXPS.len()];
                if na && e.1 != 1 {
                    e = (2, 1);
                }
                if e.1 != 1 && e.1 != 2 && e.1 != 4 {
                    self.out.non_dyadic_exponent = true;
                }
                self.out.operators += 1;
                let r = Rat::new(e.0, e.1);
                let text = if e.1 == 1 {
                    format!("({sa})^({})", e.0)
                } else {
                    format!("({sa})^({}/{})", e.0, e.1)
                };
                (text, pa.pow(r), la + 1, na && e.0 % 2 != 0)
            }
            T::Add(a, s) | T::Sub(a, s) => {
                let is_sub = matches!(t, T::Sub(..));
                let (sa, pa, la, na) = self.go(a);
                let other = respell(a, *s as u64);
                let (sb, pb, lb, _) = self.go(&other);
                self.out.operators += 1;
                // avoid catastrophic cancellation by construction
                let eff = |scale: f64| if is_sub { pa.mag - scale * pb.mag } else { pa.mag + scale * pb.mag };
                let mut scale = 1.0;
                for cand in [1.0, 4.0, 0.25, 16.0, 0.0625] {
                    scale = cand;
                    let big = pa.mag.abs().max((cand * pb.mag).abs());
                    if eff(cand).abs() >= 0.3 * big {
                        break;
                    }
                }
                let sb = if scale == 1.0 { sb } else { format!("{} * ({sb})", lit(scale)) };
                let mag = eff(scale);
                (
                    format!("({sa}) {} ({sb})", if is_sub { "-" } else { "+" }),
                    Phys {
                        mag,
                        vec: pa.vec.clone(),
                    },
                    la.max(lb) + 1,
                    is_sub || na,
                )
            }
            T::Neg(a) => {
                let (sa, pa, la, _) = self.go(a);
                self.out.operators += 1;
                (
                    format!("-({sa})"),
                    Phys {
                        mag: -pa.mag,
                        vec: pa.vec,
                    },
                    la + 1,
                    true,
                )
            }
        }
    }
}

pub fn render(cat: &Catalogue, t: &T) -> Rendered {
    let mut r = R {
        cat,
        out: Rendered {
            src: String::new(),
            phys: Phys::scalar(0.0),
            leaves: 0,
            distinct_units: Default::default(),
            has_derived_or_prefixed: false,
            operators: 0,
            non_dyadic_exponent: false,
            levels: 0,
            forms: vec![],
        },
    };
    let (src, phys, levels, _) = r.go(t);
    r.out.src = src;
    r.out.phys = phys;
    r.out.levels = levels;
    r.out
}

fn check_expr(src: &str, want: &Phys, levels: usize, st: &mut Stats) -> Result<(), Failure> {
    let cat = prelude_catalogue();
    let mut ctx = prelude();
    let o = eval(&mut ctx, &format!("let xx_e = {src}\nxx_e"));
    if let Some((loc, msg)) = &o.panic {
        return Err(Failure::new(format!("panic:{loc}"), format!("`{src}`: panic at {loc}: {msg}")));
    }
    if !o.ok() {
        return Err(Failure::new(
            "arithmetic-input-fails",
            format!("dimensionally consistent expression failed: {} for `{src}`", o.summary()),
        ));
    }
    let tol = 1e-9 + 1e-10 * levels as f64;
    let Some(VValue::Quantity(raw)) = ctx.verif_raw_global("xx_e") else {
        return Err(Failure::new("harness", "not a quantity"));
    };
    let Some(p) = cat.physical(&raw) else {
        return Err(Failure::new("harness", "unknown unit in result"));
    };
    if p.vec != want.vec {
        return Err(Failure::new(
            "wrong-dimension",
            format!("`{src}` has base units {} but dimensional analysis gives {}", p.vec, want.vec),
        ));
    }
    // the exact value expressed in the unit numbat chose for the result: when that is beyond the
    // f64 range, inf, 0 or (inf - inf) NaN is all floating point can give
    let expected_in_result_unit = cat.unit_of_factors(&raw.factors).map(|(_, factor)| want.mag / factor);
    let exact_value_unrepresentable = matches!(expected_in_result_unit, Some(x) if x != 0.0 && (!x.is_finite() || x.abs() > 1e300 || x.abs() < 1e-300));
    if ((raw.value.is_infinite() || raw.value == 0.0 || raw.value.abs() < 1e-300) && want.mag.is_finite() && want.mag != 0.0)
        || (raw.value.is_nan() && exact_value_unrepresentable)
    {
        // the value does not fit into an f64 *in the unit the result is expressed in* (sums are
        // formed in the smaller unit, e.g. ronto-sievert^9): floating-point overflow/underflow,
        // not a dimensional-analysis disagreement; generated, counted, left out
        st.excluded("value-outside-f64-range-in-result-unit");
        return Ok(());
    }
    if !rel_close(p.mag, want.mag, tol) {
        return Err(Failure::new(
            "wrong-magnitude",
            format!("`{src}` is {} in base units, exact dimensional arithmetic gives {}", p.mag, want.mag),
        ));
    }
    // the displayed (simplified) result denotes the same
    if let Some(VValue::Quantity(shown)) = &o.result {
        let Some(ps) = cat.physical(shown) else {
            return Err(Failure::new("harness", "unknown unit in displayed result"));
        };
        if ps.vec != want.vec || !rel_close(ps.mag, want.mag, tol) {
            // overflow to inf/0 and precision loss through subnormal intermediates inside the
            // simplifier (merged units with conversion factors beyond 1e±100) are C05's business
            let extreme = shown.value.abs() > 1e100 || shown.value.abs() < 1e-100;
            if ps.mag.is_finite() && ps.mag != 0.0 && !extreme {
                return Err(Failure::new(
                    "displayed-result-wrong",
                    format!(
                        "`{src}` is displayed as {} = {} {} in base units, reference {} {}",
                        o.result_text.clone().unwrap_or_default(), ps.mag, ps.vec, want.mag, want.vec
                    ),
                ));
            }
            st.label("displayed-overflow (left to C05)");
        }
    }
    Ok(())
}

fn check_tree(t: &T, st: &mut Stats) -> CheckResult {
    st.eval();
    let cat = prelude_catalogue();
    let r = render(&cat, t);
    if r.non_dyadic_exponent {
        // run-time exponents go through f64: 1/3 does not come back as the rational 1/3
        // (C01's known finding); such trees are generated, counted and skipped here
        st.excluded("non-dyadic-exponent");
        return Ok(());
    }
    if !r.phys.mag.is_finite() || r.phys.mag == 0.0 || r.phys.mag.abs() < 1e-290 || r.phys.mag.abs() > 1e290 {
        st.excluded("reference-out-of-f64-range");
        return Ok(());
    }
    check_expr(&r.src, &r.phys, r.levels, st)?;
    st.label(&format!("levels:{}", r.levels.min(6)));
    if r.distinct_units.len() >= 2 && r.has_derived_or_prefixed && r.operators >= 1 {
        st.nontrivial_with_sample(hash_str(&r.src), || json!({"expr": r.src, "base_unit_value": r.phys.mag, "base_units": r.phys.vec.to_string()}));
    }
    Ok(())
}

#[derive(Clone, Debug)]
struct LeafCase {
    ident: String,
    unit: usize,
    factor: f64,
    prefixed: bool,
}

fn check_leaf(l: &LeafCase, st: &mut Stats) -> CheckResult {
    st.eval();
    let cat = prelude_catalogue();
    let want = Phys {
        mag: l.factor,
        vec: cat.units[l.unit].base_units.clone(),
    };
    check_expr(&format!("1 {}", l.ident), &want, 0, st)?;
    st.label(if l.prefixed { "leaf:prefixed" } else { "leaf:bare" });
    if l.prefixed {
        st.nontrivial(hash_str(&l.ident));
    }
    Ok(())
}

fn run(cfg: &Cfg) -> Report {
    let mut rep = Report::new(
        cfg,
        "(1) leaf sweep, exhaustive: `1 <identifier>` for every single-identifier spelling of every prelude unit (all aliases x all accepted prefixes in long and every short form); (2) proptest expression trees (depth <= 4, thorough 6) over those leaves with magnitudes from 1e-9 to 4e9, `* / ^k` (k integer -3..3 or dyadic 1/2, 3/2, 1/4), unary minus, and `+ -` whose right operand is the left operand respelled in other units of the same dimensions (no cancellation by construction). Oracle: the raw value and the displayed value, expressed in base units through RefDim's own recursion over the direct unit definitions, equal exact dimensional arithmetic on the tree (vector exactly, magnitude 1e-9 + 1e-10/level). non-trivial = >= 2 distinct units of which one is derived or prefixed and >= 1 operator (leaf sweep: prefixed forms); distinct = expression text",
    );
    let cat = prelude_catalogue();
    let mut leaves = vec![];
    for ui in 0..cat.units.len() {
        for (ident, factor, prefix) in cat.usable_forms(ui) {
            leaves.push(LeafCase {
                ident,
                unit: ui,
                factor,
                prefixed: prefix.is_some(),
            });
        }
    }
    rep.extra("leaf_forms", json!(leaves.len()));
    rep.extra("units", json!(cat.units.len()));
    rep.absorb(run_enumerated(
        cfg,
        "leaves",
        &leaves,
        |l| json!({"ident": l.ident, "unit": cat_name(l.unit), "factor": l.factor, "prefixed": l.prefixed}),
        check_leaf,
    ));
    if !rep.failed() {
        let depth = cfg.tier.pick(4u32, 6u32);
        let cases = cfg.tier.pick(10000u32, 80000u32);
        rep.absorb(run_proptest(
            cfg,
            "trees",
            cases,
            move || tree_strategy(depth),
            |t: &T| json!({"tree": t, "src": render(&prelude_catalogue(), t).src}),
            check_tree,
        ));
    }
    rep.exhaustive = Some(false);
    rep.extra("exhaustive_over", json!("the leaf sweep covers every unit spelling; trees are sampled"));
    rep.assume("the direct unit definitions (factor and defining unit of each `unit` statement) are the specification; a wrong constant inside a .nbt file is out of reach");
    rep
}

fn cat_name(u: usize) -> String {
    prelude_catalogue().units[u].def.name.clone()
}

fn replay(sub: &str, case: &J) -> CheckResult {
    let mut st = Stats::default();
    if sub == "leaves" {
        let cat = prelude_catalogue();
        let name = case["unit"].as_str().unwrap_or("");
        let Some(&unit) = cat.by_name.get(name) else {
            return Ok(());
        };
        check_leaf(
            &LeafCase {
                ident: case["ident"].as_str().unwrap_or("").into(),
                unit,
                factor: case["factor"].as_f64().unwrap_or(1.0),
                prefixed: case["prefixed"].as_bool().unwrap_or(false),
            },
            &mut st,
        )
    } else {
        let t: T = serde_json::from_value(case["tree"].clone()).map_err(|e| Failure::new("harness", e.to_string()))?;
        check_tree(&t, &mut st)
    }
}

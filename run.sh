#!/bin/bash
# ./run.sh <ID> <quick|thorough>   — builds the harness from /repo's current working tree, runs one check.
# exit 0: property held on everything explored (KNOWN-FINDING lines allowed)
# exit 1: VIOLATION line printed; exit 2: infrastructure trouble (never a violation)
set -u
ID="${1:?property id}"
TIER="${2:-${VERIF_TIER:-quick}}"
ROOT="$(cd "$(dirname "$0")" && pwd)"
export VERIF_ROOT="$ROOT"
export CARGO_TARGET_DIR="$ROOT/target"
cd "$ROOT/harness" || exit 2
export CARGO_NET_OFFLINE=true
export TZ=UTC
export MALLOC_MMAP_THRESHOLD_=1073741824 MALLOC_TRIM_THRESHOLD_=4294967295
mkdir -p "$ROOT/target"
LOG=$(mktemp "$ROOT/target/build-XXXXXX.log" 2>/dev/null || mktemp)
if ! flock $ROOT/target/.build.lock cargo build --profile verif >"$LOG" 2>&1; then
  cat "$LOG" >&2; rm -f "$LOG"
  echo "INFRA: harness build failed" >&2
  exit 2
fi
rm -f "$LOG"
if [ "$ID" = "C22" ]; then
  if ! (cd /repo && flock $ROOT/target/.build.lock cargo build -p numbat-cli --offline --target-dir $ROOT/target-cli >$ROOT/target/cli-build.log 2>&1); then
    cat $ROOT/target/cli-build.log >&2
    echo "INFRA: numbat-cli build failed" >&2
    exit 2
  fi
fi
# memory guard (a runaway generated program must not take the machine down) and wall-clock guard;
# both are infrastructure trouble (exit 2), never a violation
ulimit -v 41943040 2>/dev/null
LIMIT=1800; [ "$TIER" = "thorough" ] && LIMIT=28800
timeout --signal=KILL "$LIMIT" $ROOT/target/verif/nbv check "$ID" --tier "$TIER"
rc=$?
case $rc in
  0|1) exit $rc ;;
  *) echo "INFRA: check process ended with status $rc (crash, memory guard or time limit)" >&2; exit 2 ;;
esac

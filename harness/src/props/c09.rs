//! C09 — compiled programs compute what their source means.
//!
//! Well-typed programs over integers, booleans, strings, structs, lists and functions are
//! generated as an AST; the AST is rendered to numbat source and also evaluated by an
//! independent tree-walking reference evaluator (static scoping, left-to-right evaluation).

use crate::engine::*;
use crate::session::*;
use crate::PropDef;
use numbat::verif_hooks::VValue;
use proptest::prelude::*;
use serde::{Deserialize, Serialize};
use serde_json::{Value as J, json};
use std::rc::Rc;

pub fn def() -> PropDef {
    PropDef {
        id: "C09",
        run,
        replay,
    }
}

// ------------------------------------------------------------------------------------------
// AST
// ------------------------------------------------------------------------------------------

#[derive(Clone, Debug, PartialEq)]
enum T {
    Num,
    Bool,
    Str,
    List(Box<T>),
    Struct(usize),
    /// function value Scalar -> Scalar
    FnNN,
}

#[derive(Clone, Debug)]
enum X {
    Num(i64),
    Bool(bool),
    Str(String),
    Var(String),
    /// reference to a function by name (as a value)
    FnName(String),
    Bin(&'static str, Box<X>, Box<X>),
    Neg(Box<X>),
    Not(Box<X>),
    If(Box<X>, Box<X>, Box<X>),
    Call(String, Vec<X>),
    /// call through a function value held in a variable / parameter
    CallVal(Box<X>, Vec<X>),
    Interp(Vec<(String, Option<X>)>),
    Struct(usize, Vec<(String, X)>),
    Field(Box<X>, String),
    List(Vec<X>, T),
    /// x |> f(extra...)  ==  f(extra..., x)
    Pipe(Box<X>, String, Vec<X>),
}

#[derive(Clone, Debug)]
enum S {
    Let(String, X),
    Fn { name: String, params: Vec<String>, ptys: Vec<T>, ret: T, body: X, wheres: Vec<(String, X)> },
    StructDef(usize),
    Expr(X),
    Print(X),
}

#[derive(Clone, Debug, PartialEq)]
enum V {
    Num(f64),
    Bool(bool),
    Str(String),
    List(Vec<V>),
    Struct(String, Vec<(String, V)>),
    /// index into the function table
    Fn(usize),
}

#[derive(Clone, Debug, PartialEq)]
enum RefErr {
    EmptyList,
    StepLimit,
}

const STRUCTS: &[(&str, &[(&str, u8)])] = &[
    ("Pt", &[("px", 0), ("py", 0), ("pz", 0)]),
    ("Rec", &[("label", 2), ("count", 0), ("flag", 1)]),
    ("Pair", &[("fst", 0), ("snd", 2)]),
];

fn field_ty(k: u8) -> T {
    match k {
        0 => T::Num,
        1 => T::Bool,
        _ => T::Str,
    }
}

// ------------------------------------------------------------------------------------------
// rendering
// ------------------------------------------------------------------------------------------

fn fmt_num(x: f64) -> String {
    // numbat's default display of integers: groups of three from 6 digits on
    let neg = x < 0.0;
    let digits = format!("{}", x.abs() as i128);
    let body = if digits.len() >= 6 {
        let mut out = String::new();
        for (i, ch) in digits.chars().enumerate() {
            if i > 0 && (digits.len() - i) % 3 == 0 {
                out.push('_');
            }
            out.push(ch);
        }
        out
    } else {
        digits
    };
    if neg && x != 0.0 { format!("-{body}") } else { body }
}

fn render_x(x: &X) -> String {
    match x {
        X::Num(n) => {
            if *n < 0 {
                format!("({n})")
            } else {
                n.to_string()
            }
        }
        X::Bool(b) => b.to_string(),
        X::Str(s) => format!("\"{s}\""),
        X::Var(n) | X::FnName(n) => n.clone(),
        X::Bin(op, a, b) => format!("({} {op} {})", render_x(a), render_x(b)),
        X::Neg(a) => format!("(-{})", render_x(a)),
        X::Not(a) => format!("(!{})", render_x(a)),
        X::If(c, t, e) => format!("(if {} then {} else {})", render_x(c), render_x(t), render_x(e)),
        X::Call(f, args) => format!("{f}({})", args.iter().map(render_x).collect::<Vec<_>>().join(", ")),
        X::CallVal(f, args) => format!("{}({})", render_x(f), args.iter().map(render_x).collect::<Vec<_>>().join(", ")),
        X::Interp(parts) => {
            let mut s = String::from("\"");
            for (lit, e) in parts {
                s.push_str(lit);
                if let Some(e) = e {
                    s.push('{');
                    s.push_str(&render_x(e));
                    s.push('}');
                }
            }
            s.push('"');
            s
        }
        X::Struct(k, fields) => format!(
            "{} {{ {} }}",
            STRUCTS[*k].0,
            fields.iter().map(|(n, e)| format!("{n}: {}", render_x(e))).collect::<Vec<_>>().join(", ")
        ),
        X::Field(e, f) => format!("{}.{f}", render_x(e)),
        X::List(items, _) => format!("[{}]", items.iter().map(render_x).collect::<Vec<_>>().join(", ")),
        X::Pipe(e, f, extra) => {
            if extra.is_empty() {
                format!("({} |> {f})", render_x(e))
            } else {
                format!("({} |> {f}({}))", render_x(e), extra.iter().map(render_x).collect::<Vec<_>>().join(", "))
            }
        }
    }
}

fn ty_name(t: &T) -> String {
    match t {
        T::Num => "Scalar".into(),
        T::Bool => "Bool".into(),
        T::Str => "String".into(),
        T::List(e) => format!("List<{}>", ty_name(e)),
        T::Struct(k) => STRUCTS[*k].0.into(),
        T::FnNN => "Fn[(Scalar) -> Scalar]".into(),
    }
}

fn render_s(s: &S) -> String {
    match s {
        S::Let(n, e) => format!("let {n} = {}", render_x(e)),
        S::Fn { name, params, ptys, ret, body, wheres } => {
            let sig: Vec<String> = params.iter().zip(ptys).map(|(p, t)| format!("{p}: {}", ty_name(t))).collect();
            let mut s = format!("fn {name}({}) -> {} = {}", sig.join(", "), ty_name(ret), render_x(body));
            for (i, (n, e)) in wheres.iter().enumerate() {
                s.push_str(&format!("\n  {} {n} = {}", if i == 0 { "where" } else { "and" }, render_x(e)));
            }
            s
        }
        S::StructDef(k) => format!(
            "struct {} {{ {} }}",
            STRUCTS[*k].0,
            STRUCTS[*k].1.iter().map(|(n, t)| format!("{n}: {}", ty_name(&field_ty(*t)))).collect::<Vec<_>>().join(", ")
        ),
        S::Expr(e) => render_x(e),
        S::Print(e) => format!("print({})", render_x(e)),
    }
}

// ------------------------------------------------------------------------------------------
// reference evaluator
// ------------------------------------------------------------------------------------------

struct FnDef {
    name: String,
    params: Vec<String>,
    body: X,
    wheres: Vec<(String, X)>,
    /// number of globals / functions visible where the function was defined
    globals_visible: usize,
    fns_visible: usize,
}

struct Machine {
    globals: Vec<(String, V)>,
    fns: Vec<Rc<FnDef>>,
    prints: Vec<String>,
    steps: u64,
    big: bool,
    depth: usize,
}

struct Scope<'a> {
    locals: &'a [(String, V)],
    globals_visible: usize,
    fns_visible: usize,
}

fn show(v: &V) -> String {
    match v {
        V::Num(x) => fmt_num(*x),
        V::Bool(b) => b.to_string(),
        V::Str(s) => s.clone(),
        V::List(items) => format!("[{}]", items.iter().map(show_quoted).collect::<Vec<_>>().join(", ")),
        V::Struct(n, fields) => {
            if fields.is_empty() {
                format!("{n} {{}}")
            } else {
                format!("{n} {{ {} }}", fields.iter().map(|(k, v)| format!("{k}: {}", show_quoted(v))).collect::<Vec<_>>().join(", "))
            }
        }
        V::Fn(_) => "<function>".into(),
    }
}

fn show_quoted(v: &V) -> String {
    match v {
        V::Str(s) => format!("\"{s}\""),
        other => show(other),
    }
}

impl Machine {
    fn lookup_fn(&self, name: &str, visible: usize) -> Option<usize> {
        self.fns[..visible].iter().rposition(|f| f.name == name)
    }

    fn eval(&mut self, x: &X, sc: &Scope) -> Result<V, RefErr> {
        self.steps += 1;
        if self.steps > 2_000_000 {
            return Err(RefErr::StepLimit);
        }
        Ok(match x {
            X::Num(n) => V::Num(*n as f64),
            X::Bool(b) => V::Bool(*b),
            X::Str(s) => V::Str(s.clone()),
            X::Var(n) => {
                // innermost binding: locals from the end, then the globals visible at the definition
                if let Some((_, v)) = sc.locals.iter().rev().find(|(k, _)| k == n) {
                    v.clone()
                } else if let Some((_, v)) = self.globals[..sc.globals_visible].iter().rev().find(|(k, _)| k == n) {
                    v.clone()
                } else {
                    panic!("reference evaluator: unbound variable {n}")
                }
            }
            X::FnName(n) => V::Fn(self.lookup_fn(n, sc.fns_visible).unwrap_or_else(|| panic!("unbound function {n}"))),
            X::Bin(op, a, b) => {
                let va = self.eval(a, sc)?;
                let vb = self.eval(b, sc)?;
                match (*op, va, vb) {
                    ("+", V::Num(p), V::Num(q)) => V::Num(p + q),
                    ("-", V::Num(p), V::Num(q)) => V::Num(p - q),
                    ("*", V::Num(p), V::Num(q)) => {
                        if (p * q).abs() > 1e12 {
                            // beyond this the display switches notation and f64 is no longer exact
                            self.big = true;
                        }
                        V::Num(p * q)
                    }
                    ("<", V::Num(p), V::Num(q)) => V::Bool(p < q),
                    (">", V::Num(p), V::Num(q)) => V::Bool(p > q),
                    ("<=", V::Num(p), V::Num(q)) => V::Bool(p <= q),
                    (">=", V::Num(p), V::Num(q)) => V::Bool(p >= q),
                    ("==", p, q) => V::Bool(p == q),
                    ("!=", p, q) => V::Bool(p != q),
                    ("&&", V::Bool(p), V::Bool(q)) => V::Bool(p && q),
                    ("||", V::Bool(p), V::Bool(q)) => V::Bool(p || q),
                    (o, p, q) => panic!("reference evaluator: bad operands {o} {p:?} {q:?}"),
                }
            }
            X::Neg(a) => match self.eval(a, sc)? {
                V::Num(p) => V::Num(-p),
                _ => panic!("neg"),
            },
            X::Not(a) => match self.eval(a, sc)? {
                V::Bool(p) => V::Bool(!p),
                _ => panic!("not"),
            },
            X::If(c, t, e) => match self.eval(c, sc)? {
                V::Bool(true) => self.eval(t, sc)?,
                V::Bool(false) => self.eval(e, sc)?,
                _ => panic!("if"),
            },
            X::Call(f, args) => {
                let mut vals = vec![];
                for a in args {
                    vals.push(self.eval(a, sc)?);
                }
                self.call_named(f, vals, sc)?
            }
            X::CallVal(f, args) => {
                let fv = self.eval(f, sc)?;
                let mut vals = vec![];
                for a in args {
                    vals.push(self.eval(a, sc)?);
                }
                match fv {
                    V::Fn(i) => self.apply(i, vals)?,
                    _ => panic!("callval"),
                }
            }
            X::Interp(parts) => {
                let mut s = String::new();
                for (lit, e) in parts {
                    s.push_str(lit);
                    if let Some(e) = e {
                        s.push_str(&show(&self.eval(e, sc)?));
                    }
                }
                V::Str(s)
            }
            X::Struct(k, fields) => {
                // fields are evaluated in source order, stored in declaration order
                let mut vals = vec![];
                for (n, e) in fields {
                    vals.push((n.clone(), self.eval(e, sc)?));
                }
                let mut ordered = vec![];
                for (n, _) in STRUCTS[*k].1 {
                    let v = vals.iter().find(|(k, _)| k == n).unwrap().1.clone();
                    ordered.push((n.to_string(), v));
                }
                V::Struct(STRUCTS[*k].0.to_string(), ordered)
            }
            X::Field(e, f) => match self.eval(e, sc)? {
                V::Struct(_, fields) => fields.iter().find(|(k, _)| k == f).unwrap().1.clone(),
                _ => panic!("field"),
            },
            X::List(items, _) => {
                let mut vals = vec![];
                for i in items {
                    vals.push(self.eval(i, sc)?);
                }
                V::List(vals)
            }
            X::Pipe(e, f, extra) => {
                // numbat builds the call f(extra..., e): the arguments are evaluated in that order
                let mut vals = vec![];
                for a in extra {
                    vals.push(self.eval(a, sc)?);
                }
                vals.push(self.eval(e, sc)?);
                self.call_named(f, vals, sc)?
            }
        })
    }

    fn call_named(&mut self, f: &str, mut vals: Vec<V>, sc: &Scope) -> Result<V, RefErr> {
        // user functions shadow nothing here: generated names never clash with the library
        if let Some(i) = self.lookup_fn(f, sc.fns_visible) {
            return self.apply(i, vals);
        }
        Ok(match f {
            "len" => match &vals[0] {
                V::List(l) => V::Num(l.len() as f64),
                _ => panic!("len"),
            },
            "head" => match &vals[0] {
                V::List(l) => l.first().cloned().ok_or(RefErr::EmptyList)?,
                _ => panic!("head"),
            },
            "tail" => match &vals[0] {
                V::List(l) => {
                    if l.is_empty() {
                        return Err(RefErr::EmptyList);
                    }
                    V::List(l[1..].to_vec())
                }
                _ => panic!("tail"),
            },
            "cons" => match vals.pop().unwrap() {
                V::List(mut l) => {
                    l.insert(0, vals.pop().unwrap());
                    V::List(l)
                }
                _ => panic!("cons"),
            },
            "cons_end" => match vals.pop().unwrap() {
                V::List(mut l) => {
                    l.push(vals.pop().unwrap());
                    V::List(l)
                }
                _ => panic!("cons_end"),
            },
            "reverse" => match vals.pop().unwrap() {
                V::List(mut l) => {
                    l.reverse();
                    V::List(l)
                }
                _ => panic!("reverse"),
            },
            "concat" => match (vals[0].clone(), vals[1].clone()) {
                (V::List(mut a), V::List(b)) => {
                    a.extend(b);
                    V::List(a)
                }
                _ => panic!("concat"),
            },
            "map" => match (vals[0].clone(), vals[1].clone()) {
                (V::Fn(i), V::List(l)) => {
                    let mut out = vec![];
                    for v in l {
                        out.push(self.apply(i, vec![v])?);
                    }
                    V::List(out)
                }
                _ => panic!("map"),
            },
            "foldl" => match (vals[0].clone(), vals[2].clone()) {
                (V::Fn(i), V::List(l)) => {
                    let mut acc = vals[1].clone();
                    for v in l {
                        acc = self.apply(i, vec![acc, v])?;
                    }
                    acc
                }
                _ => panic!("foldl"),
            },
            "str_append" => match (vals[0].clone(), vals[1].clone()) {
                (V::Str(a), V::Str(b)) => V::Str(a + &b),
                _ => panic!("str_append"),
            },
            "str_length" => match &vals[0] {
                V::Str(a) => V::Num(a.chars().count() as f64),
                _ => panic!("str_length"),
            },
            other => panic!("reference evaluator: unknown function {other}"),
        })
    }

    fn apply(&mut self, i: usize, args: Vec<V>) -> Result<V, RefErr> {
        self.depth += 1;
        if self.depth > 500 {
            self.depth -= 1;
            return Err(RefErr::StepLimit);
        }
        let r = self.apply_inner(i, args);
        self.depth -= 1;
        r
    }

    fn apply_inner(&mut self, i: usize, args: Vec<V>) -> Result<V, RefErr> {
        let f = self.fns[i].clone();
        let mut locals: Vec<(String, V)> = f.params.iter().cloned().zip(args).collect();
        // a function sees itself (recursion) and everything defined before it
        let fns_visible = f.fns_visible;
        for (n, e) in &f.wheres {
            let v = {
                let sc = Scope { locals: &locals, globals_visible: f.globals_visible, fns_visible };
                self.eval(e, &sc)?
            };
            locals.push((n.clone(), v));
        }
        let sc = Scope { locals: &locals, globals_visible: f.globals_visible, fns_visible };
        self.eval(&f.body, &sc)
    }

    fn exec(&mut self, s: &S) -> Result<Option<V>, RefErr> {
        let sc_all = |m: &Machine| (m.globals.len(), m.fns.len());
        match s {
            S::Let(n, e) => {
                let (g, f) = sc_all(self);
                let v = self.eval(e, &Scope { locals: &[], globals_visible: g, fns_visible: f })?;
                self.globals.push((n.clone(), v));
                Ok(None)
            }
            S::Fn { name, params, body, wheres, .. } => {
                let def = FnDef {
                    name: name.clone(),
                    params: params.clone(),
                    body: body.clone(),
                    wheres: wheres.clone(),
                    globals_visible: self.globals.len(),
                    fns_visible: self.fns.len() + 1,
                };
                self.fns.push(Rc::new(def));
                Ok(None)
            }
            S::StructDef(_) => Ok(None),
            S::Expr(e) => {
                let (g, f) = sc_all(self);
                Ok(Some(self.eval(e, &Scope { locals: &[], globals_visible: g, fns_visible: f })?))
            }
            S::Print(e) => {
                let (g, f) = sc_all(self);
                let v = self.eval(e, &Scope { locals: &[], globals_visible: g, fns_visible: f })?;
                self.prints.push(show(&v));
                Ok(None)
            }
        }
    }
}

// ------------------------------------------------------------------------------------------
// generator
// ------------------------------------------------------------------------------------------

#[derive(Clone, Debug, Serialize, Deserialize)]
pub enum CIns {
    Let { ty: u8, seed: u32 },
    Relet { var: u16, seed: u32 },
    Fn { ret: u8, nparams: u8, seed: u32, wheres: u8, shadow: bool },
    Refn { f: u16, seed: u32 },
    Rec { seed: u32 },
    FnValue { f: u16 },
    StructLet { k: u8, seed: u32 },
    ListLet { elem: u8, seed: u32 },
    Print { ty: u8, seed: u32 },
    Expr { ty: u8, seed: u32 },
}

fn cins_strategy() -> impl Strategy<Value = CIns> {
    prop_oneof![
        5 => (0u8..3, any::<u32>()).prop_map(|(ty, seed)| CIns::Let { ty, seed }),
        3 => (any::<u16>(), any::<u32>()).prop_map(|(var, seed)| CIns::Relet { var, seed }),
        5 => (0u8..3, 0u8..4, any::<u32>(), 0u8..3, any::<bool>()).prop_map(|(ret, nparams, seed, wheres, shadow)| CIns::Fn { ret, nparams, seed, wheres, shadow }),
        2 => (any::<u16>(), any::<u32>()).prop_map(|(f, seed)| CIns::Refn { f, seed }),
        2 => any::<u32>().prop_map(|seed| CIns::Rec { seed }),
        2 => any::<u16>().prop_map(|f| CIns::FnValue { f }),
        3 => (0u8..3, any::<u32>()).prop_map(|(k, seed)| CIns::StructLet { k, seed }),
        3 => (0u8..2, any::<u32>()).prop_map(|(elem, seed)| CIns::ListLet { elem, seed }),
        3 => (0u8..3, any::<u32>()).prop_map(|(ty, seed)| CIns::Print { ty, seed }),
        2 => (0u8..3, any::<u32>()).prop_map(|(ty, seed)| CIns::Expr { ty, seed }),
    ]
}

struct Rng(u64);
impl Rng {
    fn next(&mut self) -> u64 {
        self.0 = splitmix64(self.0);
        self.0
    }
    fn below(&mut self, n: usize) -> usize {
        if n == 0 { 0 } else { (self.next() % n as u64) as usize }
    }
}

#[derive(Clone)]
struct FnSig {
    name: String,
    ptys: Vec<T>,
    ret: T,
}

#[derive(Default)]
struct GenEnv {
    vars: Vec<(String, T)>,
    fns: Vec<FnSig>,
    structs_defined: [bool; 3],
    counter: usize,
    /// features for the non-triviality rule
    multi_arg_call: bool,
    struct_out_of_order: bool,
    nested_if: bool,
    shadowed: bool,
    pending: Vec<S>,
}

fn base_ty(k: u8) -> T {
    match k % 3 {
        0 => T::Num,
        1 => T::Bool,
        _ => T::Str,
    }
}

impl GenEnv {
    fn fresh(&mut self, p: &str) -> String {
        self.counter += 1;
        format!("{p}_{}", self.counter)
    }

    fn ensure_struct(&mut self, k: usize) {
        if !self.structs_defined[k] {
            self.structs_defined[k] = true;
            self.pending.push(S::StructDef(k));
        }
    }

    fn genx(&mut self, ty: &T, locals: &[(String, T)], r: &mut Rng, depth: u32) -> X {
        let vars: Vec<String> = locals.iter().chain(self.vars.iter()).filter(|(_, t)| t == ty).map(|(n, _)| n.clone()).collect();
        // innermost binding of a name only: a shadowed outer variable of another type must not be picked
        let visible = |name: &String, ty: &T, locals: &[(String, T)], vars: &[(String, T)]| -> bool {
            let inner = locals.iter().rev().chain(vars.iter().rev()).find(|(n, _)| n == name);
            inner.map(|(_, t)| t == ty).unwrap_or(false)
        };
        let vars: Vec<String> = vars.into_iter().filter(|n| visible(n, ty, locals, &self.vars)).collect();
        let leaf = |s: &mut GenEnv, r: &mut Rng| -> X {
            if !vars.is_empty() && r.below(3) > 0 {
                return X::Var(vars[r.below(vars.len())].clone());
            }
            match ty {
                T::Num => X::Num(r.below(20) as i64 - 5),
                T::Bool => X::Bool(r.below(2) == 0),
                T::Str => X::Str(["a", "bc", "xyz", "hello", ""][r.below(5)].to_string()),
                T::List(e) => {
                    let n = r.below(4);
                    X::List((0..n).map(|_| s.genx(e, locals, r, 0)).collect(), (**e).clone())
                }
                T::Struct(k) => {
                    let k = *k;
                    s.ensure_struct(k);
                    let mut fields: Vec<(String, X)> = STRUCTS[k].1.iter().map(|(n, t)| (n.to_string(), s.genx(&field_ty(*t), locals, r, 0))).collect();
                    // any permutation of the fields: a rotation, optionally reversed
                    let rot = r.below(fields.len());
                    fields.rotate_left(rot);
                    let rev = r.below(2) == 0 && fields.len() >= 2;
                    if rev {
                        fields.reverse();
                    }
                    if rot > 0 || rev {
                        s.struct_out_of_order = true;
                    }
                    X::Struct(k, fields)
                }
                T::FnNN => {
                    // (a function name that a parameter shadows means the parameter)
                    let fs: Vec<String> = s
                        .fns
                        .iter()
                        .filter(|f| f.ptys == vec![T::Num] && f.ret == T::Num && !locals.iter().any(|(n, _)| n == &f.name))
                        .map(|f| f.name.clone())
                        .collect();
                    if fs.is_empty() {
                        // a library function Scalar -> Scalar that the reference knows: none; use a fresh one
                        X::FnName("c09_identity".into())
                    } else {
                        X::FnName(fs[r.below(fs.len())].clone())
                    }
                }
            }
        };
        if depth == 0 {
            return leaf(self, r);
        }
        let d = depth - 1;
        match r.below(10) {
            0 | 1 => leaf(self, r),
            2 | 3 => match ty {
                T::Num => {
                    let op = ["+", "-", "*"][r.below(3)];
                    X::Bin(op, Box::new(self.genx(ty, locals, r, d)), Box::new(self.genx(ty, locals, r, d)))
                }
                T::Bool => match r.below(4) {
                    0 => X::Bin(["&&", "||"][r.below(2)], Box::new(self.genx(ty, locals, r, d)), Box::new(self.genx(ty, locals, r, d))),
                    1 => X::Not(Box::new(self.genx(ty, locals, r, d))),
                    2 => X::Bin(["==", "!="][r.below(2)], Box::new(self.genx(&T::Str, locals, r, d)), Box::new(self.genx(&T::Str, locals, r, d))),
                    _ => X::Bin(["<", ">", "<=", ">=", "==", "!="][r.below(6)], Box::new(self.genx(&T::Num, locals, r, d)), Box::new(self.genx(&T::Num, locals, r, d))),
                },
                T::Str => {
                    if r.below(2) == 0 {
                        X::Call("str_append".into(), vec![self.genx(ty, locals, r, d), self.genx(ty, locals, r, d)])
                    } else {
                        let n = 1 + r.below(3);
                        let mut parts = vec![];
                        for i in 0..n {
                            let t = base_ty(r.below(3) as u8);
                            let mut e = self.genx(&t, locals, r, d);
                            // string and struct literals cannot be nested inside an interpolation
                            let text = render_x(&e);
                            if text.contains('"') || text.contains('{') {
                                e = X::Num(r.below(9) as i64);
                            }
                            parts.push((["", "x=", " ", "-"][r.below(4)].to_string(), Some(e)));
                            if i + 1 == n {
                                parts.push((["", "!", " end"][r.below(3)].to_string(), None));
                            }
                        }
                        X::Interp(parts)
                    }
                }
                T::List(e) => match r.below(6) {
                    // tail of any list expression: literals and call results are temporaries that
                    // own their storage, variables share it (an empty list is an EmptyList error
                    // in both evaluators)
                    5 => X::Call("tail".into(), vec![self.genx(ty, locals, r, d)]),
                    0 => X::Call("cons".into(), vec![self.genx(e, locals, r, d), self.genx(ty, locals, r, d)]),
                    1 => X::Call("cons_end".into(), vec![self.genx(e, locals, r, d), self.genx(ty, locals, r, d)]),
                    2 => X::Call("reverse".into(), vec![self.genx(ty, locals, r, d)]),
                    3 => X::Call("concat".into(), vec![self.genx(ty, locals, r, d), self.genx(ty, locals, r, d)]),
                    _ => {
                        if **e == T::Num {
                            X::Call("map".into(), vec![self.genx(&T::FnNN, locals, r, 0), self.genx(ty, locals, r, d)])
                        } else {
                            X::Call("tail".into(), vec![X::Call("cons".into(), vec![self.genx(e, locals, r, d), self.genx(ty, locals, r, d)])])
                        }
                    }
                },
                _ => leaf(self, r),
            },
            4 => {
                let c = self.genx(&T::Bool, locals, r, d);
                let t = self.genx(ty, locals, r, d);
                let e = self.genx(ty, locals, r, d);
                if matches!(t, X::If(..)) || matches!(e, X::If(..)) {
                    self.nested_if = true;
                }
                X::If(Box::new(c), Box::new(t), Box::new(e))
            }
            5 | 6 => {
                // call of a user function returning ty
                let fs: Vec<FnSig> = self.fns.iter().filter(|f| &f.ret == ty && !locals.iter().any(|(n, _)| n == &f.name)).cloned().collect();
                if fs.is_empty() {
                    return leaf(self, r);
                }
                let f = fs[r.below(fs.len())].clone();
                let args: Vec<X> = f.ptys.iter().map(|t| self.genx(t, locals, r, d)).collect();
                if args.len() >= 2 {
                    self.multi_arg_call = true;
                }
                if !args.is_empty() && r.below(4) == 0 {
                    // reverse application: the last argument is piped in
                    let mut a = args;
                    let last = a.pop().unwrap();
                    return X::Pipe(Box::new(last), f.name.clone(), a);
                }
                X::Call(f.name.clone(), args)
            }
            7 => match ty {
                // field access / list observers
                T::Num => match r.below(6) {
                    // head of a tail of a list that is long enough, and head of any list expression
                    4 => X::Call(
                        "head".into(),
                        vec![X::Call(
                            "tail".into(),
                            vec![X::Call(
                                "cons".into(),
                                vec![
                                    self.genx(&T::Num, locals, r, d),
                                    X::Call("cons".into(), vec![self.genx(&T::Num, locals, r, d), self.genx(&T::List(Box::new(T::Num)), locals, r, d)]),
                                ],
                            )],
                        )],
                    ),
                    5 => X::Call("head".into(), vec![self.genx(&T::List(Box::new(T::Num)), locals, r, d)]),
                    0 => {
                        self.ensure_struct(0);
                        X::Field(Box::new(self.genx(&T::Struct(0), locals, r, d)), ["px", "py", "pz"][r.below(3)].to_string())
                    }
                    1 => X::Call("len".into(), vec![self.genx(&T::List(Box::new(T::Num)), locals, r, d)]),
                    2 => X::Call("head".into(), vec![X::Call("cons".into(), vec![self.genx(&T::Num, locals, r, d), self.genx(&T::List(Box::new(T::Num)), locals, r, d)])]),
                    _ => X::Call("str_length".into(), vec![self.genx(&T::Str, locals, r, d)]),
                },
                T::Str => {
                    self.ensure_struct(2);
                    X::Field(Box::new(self.genx(&T::Struct(2), locals, r, d)), "snd".to_string())
                }
                T::Bool => {
                    self.ensure_struct(1);
                    X::Field(Box::new(self.genx(&T::Struct(1), locals, r, d)), "flag".to_string())
                }
                _ => leaf(self, r),
            },
            8 => match ty {
                T::Num => {
                    // call through a function value
                    let holders: Vec<String> = locals.iter().chain(self.vars.iter()).filter(|(_, t)| *t == T::FnNN).map(|(n, _)| n.clone()).collect();
                    let holders: Vec<String> = holders.into_iter().filter(|n| visible(n, &T::FnNN, locals, &self.vars)).collect();
                    if holders.is_empty() {
                        return leaf(self, r);
                    }
                    X::CallVal(Box::new(X::Var(holders[r.below(holders.len())].clone())), vec![self.genx(&T::Num, locals, r, d)])
                }
                _ => leaf(self, r),
            },
            _ => match ty {
                T::Num => X::Neg(Box::new(self.genx(ty, locals, r, d))),
                _ => leaf(self, r),
            },
        }
    }

    fn render_ins(&mut self, ins: &CIns) -> Vec<S> {
        let mut out: Vec<S> = vec![];
        match ins {
            CIns::Let { ty, seed } => {
                let t = base_ty(*ty);
                let mut r = Rng(*seed as u64);
                let e = self.genx(&t, &[], &mut r, 3);
                let n = self.fresh("v");
                out.append(&mut self.pending);
                out.push(S::Let(n.clone(), e));
                self.vars.push((n, t));
            }
            CIns::Relet { var, seed } => {
                if self.vars.is_empty() {
                    return self.render_ins(&CIns::Let { ty: 0, seed: *seed });
                }
                let i = (*var as usize) % self.vars.len();
                let (n, _) = self.vars[i].clone();
                let mut r = Rng(*seed as u64);
                // possibly a different type; may refer to the old binding
                let t = base_ty(r.below(3) as u8);
                let e = self.genx(&t, &[], &mut r, 2);
                out.append(&mut self.pending);
                out.push(S::Let(n.clone(), e));
                self.vars.push((n, t));
                self.shadowed = true;
            }
            CIns::Fn { ret, nparams, seed, wheres, shadow } => {
                let mut r = Rng(*seed as u64);
                let rt = base_ty(*ret);
                let mut params: Vec<(String, T)> = vec![];
                for i in 0..*nparams {
                    let t = match r.below(5) {
                        0 => T::Bool,
                        1 => T::Str,
                        2 if i == 0 => T::FnNN,
                        _ => T::Num,
                    };
                    // a function-valued parameter may have the name of an earlier global function
                    // of the same type: in the body the name means the parameter
                    let same_type_fns: Vec<String> = self.fns.iter().filter(|s| s.ptys == vec![T::Num] && s.ret == T::Num).map(|s| s.name.clone()).collect();
                    // parameters may shadow globals and unit names
                    let name = if t == T::FnNN && *shadow && !same_type_fns.is_empty() {
                        self.shadowed = true;
                        same_type_fns[r.below(same_type_fns.len())].clone()
                    } else if *shadow && i == 0 && !self.vars.is_empty() && r.below(2) == 0 {
                        self.shadowed = true;
                        self.vars[r.below(self.vars.len())].0.clone()
                    } else if *shadow && i == 1 {
                        self.shadowed = true;
                        ["m", "s", "h", "g"][r.below(4)].to_string()
                    } else {
                        ["a", "b", "c", "d"][i as usize].to_string() + "_p"
                    };
                    if params.iter().any(|(n, _)| n == &name) {
                        continue;
                    }
                    params.push((name, t));
                }
                let mut locals = params.clone();
                let mut ws = vec![];
                for _ in 0..*wheres {
                    let t = base_ty(r.below(3) as u8);
                    let e = self.genx(&t, &locals, &mut r, 2);
                    let n = self.fresh("w");
                    ws.push((n.clone(), e));
                    locals.push((n, t));
                }
                let body = self.genx(&rt, &locals, &mut r, 3);
                let name = self.fresh("f");
                out.append(&mut self.pending);
                out.push(S::Fn {
                    name: name.clone(),
                    params: params.iter().map(|p| p.0.clone()).collect(),
                    ptys: params.iter().map(|p| p.1.clone()).collect(),
                    ret: rt.clone(),
                    body,
                    wheres: ws,
                });
                self.fns.push(FnSig { name, ptys: params.iter().map(|p| p.1.clone()).collect(), ret: rt });
            }
            CIns::Refn { f, seed } => {
                if self.fns.is_empty() {
                    return self.render_ins(&CIns::Fn { ret: 0, nparams: 1, seed: *seed, wheres: 0, shadow: false });
                }
                let i = (*f as usize) % self.fns.len();
                let sig = self.fns[i].clone();
                let mut r = Rng(*seed as u64);
                let params: Vec<(String, T)> = sig.ptys.iter().enumerate().map(|(k, t)| (format!("r{k}_p"), t.clone())).collect();
                // the new body may only call functions defined before the original (no cycles)
                let saved = self.fns.clone();
                self.fns.truncate(i);
                // ... and not an older definition of the same name: inside the new body that
                // name means the new function itself (unbounded recursion)
                let own_name = sig.name.clone();
                self.fns.retain(|f| f.name != own_name);
                let body = self.genx(&sig.ret, &params, &mut r, 2);
                self.fns = saved;
                out.append(&mut self.pending);
                out.push(S::Fn {
                    name: sig.name.clone(),
                    params: params.iter().map(|p| p.0.clone()).collect(),
                    ptys: sig.ptys.clone(),
                    ret: sig.ret.clone(),
                    body,
                    wheres: vec![],
                });
                // later statements call the new definition; record it as a new (latest) entry
                self.fns.push(sig);
                self.shadowed = true;
            }
            CIns::Rec { seed } => {
                let mut r = Rng(*seed as u64);
                let name = self.fresh("rec");
                let locals = vec![("n_p".to_string(), T::Num), ("acc_p".to_string(), T::Num)];
                let step = self.genx(&T::Num, &locals, &mut r, 2);
                // bounded: n decreases to 0
                let body = X::If(
                    Box::new(X::Bin("<=", Box::new(X::Var("n_p".into())), Box::new(X::Num(0)))),
                    Box::new(X::Var("acc_p".into())),
                    Box::new(X::Call(name.clone(), vec![X::Bin("-", Box::new(X::Var("n_p".into())), Box::new(X::Num(1))), X::Bin("+", Box::new(X::Var("acc_p".into())), Box::new(step))])),
                );
                out.append(&mut self.pending);
                out.push(S::Fn { name: name.clone(), params: vec!["n_p".into(), "acc_p".into()], ptys: vec![T::Num, T::Num], ret: T::Num, body, wheres: vec![] });
                let v = self.fresh("v");
                let n = r.below(6) as i64;
                out.push(S::Let(v.clone(), X::Call(name.clone(), vec![X::Num(n), X::Num(r.below(5) as i64)])));
                self.vars.push((v, T::Num));
                self.multi_arg_call = true;
                // not added to `fns`: an unbounded first argument could be generated elsewhere
            }
            CIns::FnValue { f } => {
                let fs: Vec<String> = self.fns.iter().filter(|s| s.ptys == vec![T::Num] && s.ret == T::Num).map(|s| s.name.clone()).collect();
                if fs.is_empty() {
                    return self.render_ins(&CIns::Fn { ret: 0, nparams: 1, seed: *f as u32, wheres: 0, shadow: false });
                }
                let name = fs[(*f as usize) % fs.len()].clone();
                let v = self.fresh("h");
                out.push(S::Let(v.clone(), X::FnName(name)));
                self.vars.push((v, T::FnNN));
            }
            CIns::StructLet { k, seed } => {
                let k = (*k as usize) % 3;
                let mut r = Rng(*seed as u64);
                let e = self.genx(&T::Struct(k), &[], &mut r, 2);
                let n = self.fresh("st");
                out.append(&mut self.pending);
                out.push(S::Let(n.clone(), e));
                self.vars.push((n, T::Struct(k)));
            }
            CIns::ListLet { elem, seed } => {
                let t = T::List(Box::new(if *elem == 0 { T::Num } else { T::Str }));
                let mut r = Rng(*seed as u64);
                let e = self.genx(&t, &[], &mut r, 3);
                let n = self.fresh("ls");
                out.append(&mut self.pending);
                out.push(S::Let(n.clone(), e));
                self.vars.push((n, t));
            }
            CIns::Print { ty, seed } => {
                let mut r = Rng(*seed as u64);
                let e = self.genx(&base_ty(*ty), &[], &mut r, 3);
                out.append(&mut self.pending);
                out.push(S::Print(e));
            }
            CIns::Expr { ty, seed } => {
                let mut r = Rng(*seed as u64);
                let e = self.genx(&base_ty(*ty), &[], &mut r, 3);
                out.append(&mut self.pending);
                out.push(S::Expr(e));
            }
        }
        out
    }
}

// ------------------------------------------------------------------------------------------
// check
// ------------------------------------------------------------------------------------------

fn same(v: &V, w: &VValue, fn_names: &[Rc<FnDef>]) -> bool {
    match (v, w) {
        (V::Num(x), VValue::Quantity(q)) => q.factors.is_empty() && (q.value == *x || (q.value - x).abs() <= 1e-12 * x.abs()),
        (V::Bool(a), VValue::Bool(b)) => a == b,
        (V::Str(a), VValue::String(b)) => a == b,
        (V::List(a), VValue::List(b)) => a.len() == b.len() && a.iter().zip(b).all(|(x, y)| same(x, y, fn_names)),
        (V::Struct(n, fa), VValue::Struct(m, fb)) => n == m && fa.len() == fb.len() && fa.iter().zip(fb).all(|((k1, v1), (k2, v2))| k1 == k2 && same(v1, v2, fn_names)),
        (V::Fn(i), VValue::Function(s)) => s.contains(&fn_names[*i].name),
        _ => false,
    }
}

fn build(program: &[CIns]) -> (Vec<S>, GenEnv) {
    let mut g = GenEnv::default();
    let mut stmts = vec![S::Fn { name: "c09_identity".into(), params: vec!["z_p".into()], ptys: vec![T::Num], ret: T::Num, body: X::Var("z_p".into()), wheres: vec![] }];
    g.fns.push(FnSig { name: "c09_identity".into(), ptys: vec![T::Num], ret: T::Num });
    for ins in program {
        stmts.extend(g.render_ins(ins));
    }
    (stmts, g)
}

fn check(program: &Vec<CIns>, st: &mut Stats) -> CheckResult {
    st.eval();
    let (stmts, g) = build(program);
    let source: Vec<String> = stmts.iter().map(render_s).collect();
    let text = source.join("\n");
    // reference
    let mut m = Machine { globals: vec![], fns: vec![], prints: vec![], steps: 0, big: false, depth: 0 };
    let mut ref_err = None;
    let mut last = None;
    for s in &stmts {
        match m.exec(s) {
            Ok(v) => {
                if v.is_some() {
                    last = v;
                }
            }
            Err(e) => {
                ref_err = Some(e);
                break;
            }
        }
    }
    if ref_err == Some(RefErr::StepLimit) {
        st.excluded("reference-step-limit");
        return Ok(());
    }
    if m.big {
        st.excluded("integer-beyond-1e12");
        return Ok(());
    }
    // numbat: the whole program as one input
    let mut ctx = prelude();
    let o = eval(&mut ctx, &text);
    if let Some((loc, msg)) = &o.panic {
        return Err(Failure::new(format!("panic:{loc}"), format!("panic at {loc}: {msg}\n{text}")));
    }
    if o.budget_exhausted() {
        st.label("stopped-by-step-budget");
        return Ok(());
    }
    match (&ref_err, &o.error) {
        (Some(RefErr::EmptyList), Some(e)) if e.kind == "EmptyList" => {
            st.label("both-fail-with-empty-list");
            return Ok(());
        }
        (None, None) => {}
        (r, e) => {
            return Err(Failure::new(
                "outcome-differs",
                format!("the reference evaluator gives {r:?}, numbat gives {:?}\n{text}", e.as_ref().map(|e| format!("{:?}/{}: {}", e.stage, e.kind, e.message))),
            ));
        }
    }
    if o.prints != m.prints {
        return Err(Failure::new(
            "printed-output-differs",
            format!("numbat printed {:?}, the evaluation rules give {:?}\n{text}", o.prints, m.prints),
        ));
    }
    // every global: the innermost binding of each name
    let mut seen = std::collections::HashSet::new();
    for (name, v) in m.globals.iter().rev() {
        if !seen.insert(name.clone()) {
            continue;
        }
        let got = ctx.verif_raw_global(name);
        if !got.as_ref().map(|w| same(v, w, &m.fns)).unwrap_or(false) {
            return Err(Failure::new(
                "value-differs",
                format!("`{name}` is {:?} in numbat but the evaluation rules give {}\n{text}", got, show_quoted(v)),
            ));
        }
    }
    if let Some(v) = &last {
        // the value of the input is the value of its last expression statement
        let shown = o.result.as_ref();
        if !shown.map(|w| same(v, w, &m.fns)).unwrap_or(false) {
            return Err(Failure::new(
                "value-differs",
                format!("the input evaluates to {:?} but the evaluation rules give {}\n{text}", o.result, show_quoted(v)),
            ));
        }
    }
    if (g.multi_arg_call || g.struct_out_of_order || g.nested_if) && g.shadowed {
        if g.struct_out_of_order {
            st.label("struct-fields-out-of-order");
        }
        if g.nested_if {
            st.label("nested-conditional");
        }
        if g.multi_arg_call {
            st.label("multi-argument-call");
        }
        st.nontrivial_with_sample(hash_str(&text), || json!({"program": source, "prints": m.prints}));
    }
    Ok(())
}

fn run(cfg: &Cfg) -> Report {
    let mut rep = Report::new(
        cfg,
        "proptest programs of 4-16 instructions generated as a typed AST: integer arithmetic, booleans, comparisons, strings with interpolation of numbers/booleans/strings, structs (fields written in any permutation of the declared order, field access), lists (cons, cons_end, reverse, concat, head, tail, len, map with user functions), variables with top-level shadowing (also with a change of type), functions with 0-3 annotated parameters (function-valued parameters, parameters that shadow globals and unit names), where-clauses that depend on parameters and earlier where-variables, bounded recursion, redefinition of functions, function values bound to variables and called through them, reverse application. The AST is rendered to source and evaluated by numbat as one input, and evaluated directly by a reference evaluator (static scoping: a name in a function body means the binding visible where the function was defined; arguments, fields, list elements and string parts are evaluated left to right and keep source order). Oracle: same error kind (EmptyList) or same printed lines, same raw value of every global (innermost binding) and same final result. non-trivial = a call with >= 2 arguments, a struct with fields out of order or a nested conditional, together with a shadowed name; distinct = program text",
    );
    let cases = cfg.tier.pick(6000u32, 40000u32);
    rep.absorb(run_proptest(
        cfg,
        "programs",
        cases,
        || proptest::collection::vec(cins_strategy(), 4..16),
        |p: &Vec<CIns>| json!({"program": p, "rendered": build(p).0.iter().map(render_s).collect::<Vec<_>>()}),
        check,
    ));
    rep
}

fn replay(_sub: &str, case: &J) -> CheckResult {
    let p: Vec<CIns> = serde_json::from_value(case["program"].clone()).map_err(|e| Failure::new("harness", e.to_string()))?;
    check(&p, &mut Stats::default())
}

// ------------------------------------------------------------------------------------------
// re-use by other properties (C15): generated programs as source statements
// ------------------------------------------------------------------------------------------

pub type Program = Vec<CIns>;

pub fn program_strategy(max: usize) -> impl Strategy<Value = Program> {
    proptest::collection::vec(cins_strategy(), 2..max)
}

pub fn program_source(program: &[CIns]) -> Vec<String> {
    build(program).0.iter().map(render_s).collect()
}

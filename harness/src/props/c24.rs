//! C24 — every documented standard-library example runs (finite, exhaustive).

use crate::engine::*;
use crate::session::*;
use crate::PropDef;
use numbat::resolver::CodeSource;
use serde_json::{Value as J, json};

pub fn def() -> PropDef {
    PropDef {
        id: "C24",
        run,
        replay,
    }
}

#[derive(Clone, Debug)]
struct Example {
    function: String,
    module: String,
    code: String,
    /// examples (indices into the full list, resolved to code) run before this one in the same
    /// session (thorough tier / replay)
    before: Vec<(String, String)>,
}

fn to_json(e: &Example) -> J {
    json!({"function": e.function, "module": e.module, "code": e.code,
           "before": e.before.iter().map(|(m, c)| json!([m, c])).collect::<Vec<_>>()})
}

fn from_json(j: &J) -> Example {
    Example {
        function: j["function"].as_str().unwrap_or("").into(),
        module: j["module"].as_str().unwrap_or("").into(),
        code: j["code"].as_str().unwrap_or("").into(),
        before: j["before"]
            .as_array()
            .map(|a| {
                a.iter()
                    .map(|p| {
                        (
                            p[0].as_str().unwrap_or("").to_string(),
                            p[1].as_str().unwrap_or("").to_string(),
                        )
                    })
                    .collect()
            })
            .unwrap_or_default(),
    }
}

/// Examples that read the process environment are exempt by the property's own wording.
fn depends_on_process_environment(code: &str) -> bool {
    code.contains("args(")
}

fn collect_examples() -> Vec<Example> {
    let mut ctx = fresh_context();
    let o = eval_with(
        &mut ctx,
        "use all",
        &EvalOpts {
            render_diagnostics: false,
            source: CodeSource::Internal,
        },
    );
    assert!(o.ok(), "use all failed: {}", o.summary());
    let mut out = vec![];
    for f in ctx.functions() {
        let module = match &f.code_source {
            CodeSource::Module(path, _) => path.to_string(),
            _ => String::new(),
        };
        for (code, _desc) in &f.examples {
            out.push(Example {
                function: f.fn_name.to_string(),
                module: module.clone(),
                code: code.to_string(),
                before: vec![],
            });
        }
    }
    out.sort_by(|a, b| (&a.function, &a.code).cmp(&(&b.function, &b.code)));
    out
}

fn import_line(ctx: &numbat::Context, module: &str) -> String {
    if module.is_empty() {
        return String::new();
    }
    let already = ctx
        .resolver()
        .imported_modules
        .iter()
        .any(|m| m.to_string() == module);
    if already {
        String::new()
    } else {
        format!("use {module}\n")
    }
}

fn check(e: &Example, st: &mut Stats) -> CheckResult {
    st.eval();
    if depends_on_process_environment(&e.code) {
        st.excluded("reads-process-arguments");
        return Ok(());
    }
    let mut ctx = prelude_with_currencies();
    let opts = EvalOpts {
        render_diagnostics: false,
        source: CodeSource::Internal,
    };
    // other examples first (their success is checked when it is their turn)
    for (m, c) in &e.before {
        let imp = import_line(&ctx, m);
        if !imp.is_empty() {
            let _ = eval_with(&mut ctx, &imp, &opts);
        }
        let _ = eval_with(&mut ctx, c, &opts);
    }
    let imp = import_line(&ctx, &e.module);
    if !imp.is_empty() {
        let o = eval_with(&mut ctx, &imp, &opts);
        if !o.ok() {
            return Err(Failure::new(
                "module-import-failed",
                format!("`{}` failed before example of {}: {}", imp.trim(), e.function, o.summary()),
            ));
        }
        st.label("needs-extra-import");
    }
    let o = eval_with(&mut ctx, &e.code, &opts);
    if let Some((loc, msg)) = &o.panic {
        return Err(Failure::new(
            format!("panic:{loc}"),
            format!("example of {} panicked at {loc}: {msg}", e.function),
        ));
    }
    if let Some(err) = &o.error {
        return Err(Failure::new(
            format!("example-fails:{}", e.function),
            format!(
                "example `{}` of function {} fails: {:?}/{}: {}",
                e.code, e.function, err.stage, err.kind, err.message
            ),
        ));
    }
    if o.result.is_some() {
        st.label("yields-value");
    }
    if !e.before.is_empty() {
        st.label("after-other-examples");
    }
    st.nontrivial_with_sample(hash_str(&format!("{}|{}", e.function, e.code)), || {
        json!({"function": e.function, "example": e.code, "result": o.result_text})
    });
    Ok(())
}

fn run(cfg: &Cfg) -> Report {
    let mut rep = Report::new(
        cfg,
        "every (function, @example) pair of the standard library after `use all`, enumerated completely; each is run on a clone of a prelude+currencies session (importing the function's module first if needed) and must evaluate without error; distinct = (function, example text); every example counts as non-trivial; thorough additionally re-runs each example after 5 pseudo-randomly chosen other examples in the same session",
    );
    let examples = collect_examples();
    rep.extra("examples_total", json!(examples.len()));
    rep.exhaustive = Some(true);
    rep.absorb(run_enumerated(cfg, "examples", &examples, to_json, check));
    if cfg.tier == Tier::Thorough && !rep.failed() {
        let usable: Vec<&Example> = examples
            .iter()
            .filter(|e| !depends_on_process_environment(&e.code))
            .collect();
        let mut chained = vec![];
        for (i, e) in usable.iter().enumerate() {
            for round in 0..3u64 {
                let mut before = vec![];
                for k in 0..5u64 {
                    let r = splitmix64(cfg.seed ^ (i as u64) << 20 ^ round << 8 ^ k) as usize;
                    let o = usable[r % usable.len()];
                    before.push((o.module.clone(), o.code.clone()));
                }
                let mut c = (*e).clone();
                c.before = before;
                chained.push(c);
            }
        }
        rep.absorb(run_enumerated(cfg, "examples", &chained, to_json, check));
    }
    rep.assume("the example list is read from the function metadata of the session after `use all`");
    rep
}

fn replay(_sub: &str, case: &J) -> CheckResult {
    check(&from_json(case), &mut Stats::default())
}

#![allow(dead_code, unused_must_use)]
use nbv::PropDef;
use nbv::engine::*;
use nbv::props;
use serde_json::Value as J;

fn usage() -> ! {
    eprintln!("usage: nbv check <ID> [--tier quick|thorough] [--seed N] | nbv replay <file> | nbv list");
    std::process::exit(2);
}

fn guarded_replay(def: &PropDef, sub: &str, case: &J) -> CheckResult {
    match catch(|| (def.replay)(sub, case)) {
        Ok(r) => r,
        Err((loc, msg)) => Err(Failure::new(
            format!("panic:{loc}"),
            format!("panic at {loc}: {msg}"),
        )),
    }
}

fn main() {
    let args: Vec<String> = std::env::args().collect();
    if args.len() < 2 {
        usage();
    }
    install_panic_hook();
    let threads = std::env::var("VERIF_THREADS")
        .ok()
        .and_then(|s| s.parse::<usize>().ok())
        .unwrap_or(16);
    rayon::ThreadPoolBuilder::new()
        .num_threads(threads)
        .stack_size(64 * 1024 * 1024)
        .build_global()
        .unwrap();
    let defs = props::all();
    match args[1].as_str() {
        "list" => {
            for d in &defs {
                println!("{}", d.id);
            }
        }
        "check" => {
            if args.len() < 3 {
                usage();
            }
            let id = args[2].clone();
            let mut tier = match std::env::var("VERIF_TIER").as_deref() {
                Ok("thorough") => Tier::Thorough,
                _ => Tier::Quick,
            };
            let mut seed: u64 = std::env::var("VERIF_SEED")
                .ok()
                .and_then(|s| s.trim().parse::<i64>().ok())
                .map(|v| v as u64)
                .unwrap_or(0);
            let mut i = 3;
            while i < args.len() {
                match args[i].as_str() {
                    "--tier" => {
                        i += 1;
                        tier = match args.get(i).map(|s| s.as_str()) {
                            Some("thorough") => Tier::Thorough,
                            Some("quick") => Tier::Quick,
                            _ => usage(),
                        };
                    }
                    "--seed" => {
                        i += 1;
                        seed = args
                            .get(i)
                            .and_then(|s| s.parse::<i64>().ok())
                            .map(|v| v as u64)
                            .unwrap_or_else(|| usage());
                    }
                    _ => usage(),
                }
                i += 1;
            }
            let Some(def) = defs.iter().find(|d| d.id == id) else {
                eprintln!("unknown property {id}");
                std::process::exit(2);
            };
            let cfg = Cfg {
                id: id.clone(),
                tier,
                seed,
            };
            let _ = CURRENT_CFG.set(cfg.clone());
            // 1. replay tier: committed inputs
            let mut confirmed: Vec<String> = vec![];
            let mut replay_violations: Vec<Violation> = vec![];
            let mut notes: Vec<String> = vec![];
            let replays = load_replays(&id);
            let n_replays = replays.len();
            for (path, sub, case, is_known) in replays {
                match guarded_replay(def, &sub, &case) {
                    Ok(()) => {
                        if is_known {
                            notes.push(format!(
                                "note: known-finding example {} no longer fails",
                                path.display()
                            ));
                        }
                    }
                    Err(f) => {
                        if let Some(k) = known().matches(&id, &f.signature) {
                            if !confirmed.contains(&k.key) {
                                confirmed.push(k.key.clone());
                            }
                        } else {
                            replay_violations.push(Violation {
                                sub: sub.clone(),
                                case: case.clone(),
                                failure: f,
                            });
                        }
                    }
                }
            }
            // 2. the generated search
            let mut report = (def.run)(&cfg);
            report.stats.label_n("replayed_inputs", n_replays as u64);
            for v in replay_violations {
                report.violations.insert(0, v);
            }
            for k in report.stats.known_hits.keys() {
                if !confirmed.contains(k) {
                    confirmed.push(k.clone());
                }
            }
            let lines: Vec<String> = known()
                .known_for(&id)
                .filter(|e| confirmed.contains(&e.key))
                .map(|e| format!("[{}] {}", e.key, e.what))
                .collect();
            for n in notes {
                println!("{n}");
            }
            let code = finish(report, lines);
            std::process::exit(code);
        }
        "replay" => {
            if args.len() < 3 {
                usage();
            }
            let text = std::fs::read_to_string(&args[2]).unwrap_or_else(|e| {
                eprintln!("cannot read {}: {e}", args[2]);
                std::process::exit(2)
            });
            let v: J = serde_json::from_str(&text).unwrap_or_else(|e| {
                eprintln!("bad replay file: {e}");
                std::process::exit(2)
            });
            let id = v["property"].as_str().unwrap_or("").to_string();
            let Some(def) = defs.iter().find(|d| d.id == id) else {
                eprintln!("unknown property {id}");
                std::process::exit(2);
            };
            match guarded_replay(def, v["sub"].as_str().unwrap_or(""), &v["case"]) {
                Ok(()) => {
                    println!("[{id}] replay passes: {}", args[2]);
                }
                Err(f) => {
                    println!("  failing case: {}", f.what);
                    println!("  signature: {}", f.signature);
                    if let Some(k) = known().matches(&id, &f.signature) {
                        println!("KNOWN-FINDING: property={id} [{}] {}", k.key, k.what);
                    } else {
                        println!("VIOLATION property={id} replay={}", args[2]);
                        std::process::exit(1);
                    }
                }
            }
        }
        _ => usage(),
    }
}

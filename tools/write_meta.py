#!/usr/bin/env python3
"""Writes /verif/seeded/<name>/meta.json from the table below plus the logs that
confirm_mutant.sh and try_mutant.sh left in the directory."""
import json, os, re, glob

ROOT = "/verif/seeded"

# name: (property, source of the change, what it breaks, what it needs in order to manifest)
TABLE = {
    "C01": ("C01", "sub-agent, round 1", "bytecode compiler resolves a global read inside a function body to the FIRST definition of that name (position instead of rposition): the checker types the body against the latest definition, the VM reads the oldest", "a global defined twice at different dimensions, then a function defined afterwards that reads it, then a call"),
    "C02": ("C02", "sub-agent, round 1", "DType::try_power no longer canonicalises: a dimensionful base raised to a constant zero exponent gets the type [Length^0], which is not equal to Scalar, so consistent programs are rejected", "closed non-scalar base, compile-time exponent equal to 0, result used directly at an equality site (+, ==, annotation, list, if branches)"),
    "C03": ("C03", "sub-agent, round 1", "Prefix::factor_pow drops the exponent for binary prefixes: conversion factors of KiB^-1, MiB^2 … are wrong by 2^(n(e-1))", "a binary prefix on bit/byte with an exponent other than 1, followed by a conversion, sum, comparison or simplification"),
    "C04": ("C04", "sub-agent, round 1", "Quantity::convert_to keeps the conversion_target of an earlier `-> k U`: a later conversion to a plain unit is still displayed as `n × k U`", "a conversion to a right-hand side with magnitude != 1, then a further conversion to a plain unit, looking at the displayed result"),
    "C05": ("C05", "sub-agent, round 1", "full_simplify swaps in a named unit of equal dimension without converting the number when the base factors 'match' under an absolute 1e-9 tolerance", "a product/quotient of nano/pico-prefixed units whose simplified unit (Ry, barn) also has a tiny base factor; displayed, printed or interpolated"),
    "C06": ("C06", "sub-agent, round 1", "the rollback of resolver.imported_modules is lost for failures in the resolver stage", "one input that imports a not-yet-loaded module and then fails with an unknown module; a later input imports that module again and uses its names"),
    "C07": ("C07", "sub-agent, round 1", "after an input, the VM's last_result (ans, _) is overwritten with the simplified value that was displayed; inside one multi-statement input it stays unsimplified", "an expression whose simplification changes the unit, then `ans`/`_` used where the unit matters, compared between line-by-line and joined submission"),
    "C08": ("C08", "sub-agent, round 1", "tokenizer accepts the superscript zero in a negative unicode exponent; the parser's table of unicode exponents has no entry and hits unreachable!()", "the two characters U+207B U+2070 after an operand (value or dimension expression)"),
    "C09": ("C09", "sub-agent, round 1", "same root as seeded C01 (first instead of last definition of a global inside function bodies), demonstrated on values: a function returns the stale value", "a global defined twice with different values, a function defined afterwards reading it, a call (direct, |>, or through map)"),
    "C10": ("C10", "sub-agent, round 1", "the operand of a unary sign is parsed with per_factor instead of unary: a sign binds looser than `per`", "a unary + or - directly after `per` followed by another `per`: `8 per -4 per 2`"),
    "C11": ("C11", "sub-agent, round 1", "partial_cmp_preserve_nan returns Less/Greater for an infinite right operand without looking at the left one", "both operands the same infinity (any units); only the four ordering operators"),
    "C12": ("C12", "sub-agent, round 1", "Unit::smaller_unit treats two units as equal in size under an absolute 1e-9 tolerance and then keeps the left operand's unit", "both units smaller than 1e-9 of their base unit (nm/pm, ns/ps, eV/keV …), both operands non-zero"),
    "C13": ("C13", "sub-agent, round 1", "Prefix::as_string_long swaps the spellings of zetta and yotta: output of long-prefix-only units reads back as a different prefixed unit", "zetta or yotta on one of the nine units whose output name takes long prefixes only (barn, molar, fortnight …)"),
    "C14": ("C14", "sub-agent, round 1", "FmtFloatConfig::ignore_extremes(8): runs of eight 0s/9s inside the configured precision are cut off together with the digits after them", "significant-digits setting >= 9 and a value with eight consecutive 0s or 9s followed by further digits"),
    "C15": ("C15", "sub-agent, round 1", "with_parens prints a factorial operand without parentheses: (3!)! is echoed as 3!! (double factorial), (3!)^2 as 3!² (rejected)", "factorial of a factorial, or a factorial as the base of the ²/³ exponent shortcut"),
    "C16": ("C16", "sub-agent, round 1", "a constraint-generation shortcut for Mul/Div forgets which side the dimension type was on: sqrt(x) / y is inferred as y / sqrt(x)", "an unannotated body dividing a generic-call result (sqrt, abs, cbrt …) by a still untyped operand"),
    "C17": ("C17", "sub-agent, round 1", "a new prelude function `diff` in math::statistics collides with the non-prelude numerics::diff: whichever module is imported last wins", "the two modules math::statistics (or prelude) and numerics::diff imported in both orders"),
    "C18": ("C18", "sub-agent, round 1", "NumbatList::push_front no longer grows the view end when the view starts at 0: the list silently loses its last element", "uniquely owned storage, a tail (so a view exists), a cons that brings the view start back to 0, then a second cons"),
    "C19": ("C19", "sub-agent, round 1", "DateTime ± duration computes the sub-second part as x - floor(x) while truncating the whole seconds toward zero", "a negative duration with a non-zero fractional second part (other than .5)"),
    "C20": ("C20", "sub-agent, round 1", "HtmlWriter does not escape text written in blue (secondary label messages of diagnostics)", "a type error whose secondary label prints a generic type over a user-named dimension: List<script>"),
    "C21": ("C21", "sub-agent, round 1", "three-argument assert_eq fails only if diff > eps, so unordered comparisons (NaN) pass", "NaN operand, NaN tolerance or inf - inf in the three-argument form"),
    "C22": ("C22", "sub-agent, round 1", "the CLI prints the diagnostic of a name-resolution error but continues and exits 0", "an input failing with an identifier clash or a reserved identifier"),
    "C23": ("C23", "sub-agent, round 1", "from_unixtime rounds with (x + 0.5) as i64: negative microsecond counts come back one microsecond too large", "an instant before 1970 through from_unixtime / unixtime at microsecond resolution"),
    "C24": ("C24", "sub-agent, round 1", "parse_datetime skips the 12-hour formats unless the text contains lower-case am/pm: the documented example with `PM` fails at run time", "the third @example of datetime()"),
}

EXTRA = "/verif/seeded/extra_meta.json"
if os.path.exists(EXTRA):
    for k, v in json.load(open(EXTRA)).items():
        TABLE[k] = tuple(v)


def read(p):
    try:
        return open(p, errors="replace").read()
    except OSError:
        return ""


for name, (prop, source, breaks, needs) in sorted(TABLE.items()):
    d = os.path.join(ROOT, name)
    if not os.path.isdir(d):
        continue
    tests = read(os.path.join(d, "tests.log"))
    passed = sum(int(m) for m in re.findall(r"test result: ok\. (\d+) passed", tests))
    failed = sum(int(m) for m in re.findall(r"(\d+) failed", tests))
    runs = {}
    for log in sorted(glob.glob(os.path.join(d, "runs", "*.log"))):
        check, tier = os.path.basename(log)[:-4].split("-")
        text = read(log)
        if re.search(r"^VIOLATION", text, re.M):
            sig = re.search(r"signature: (.*)", text)
            runs[f"{check} {tier}"] = {"result": "caught", "signature": sig.group(1)[:120] if sig else None}
        elif re.search(r"^\[%s\] OK" % check, text, re.M):
            runs[f"{check} {tier}"] = {"result": "missed"}
        else:
            runs[f"{check} {tier}"] = {"result": "inconclusive (exit 2)"}
    meta = {
        "name": name,
        "property": prop,
        "source": source,
        "breaks": breaks,
        "needs_to_manifest": needs,
        "confirmed_in_scratch_worktree": {
            "command": "tools/confirm_mutant.sh %s /tmp/wt_%s" % (name, name),
            "test_suite_with_change": {"cmd": "cargo test --workspace --no-fail-fast --offline", "passed": passed, "failed": failed},
            "demo_with_change": "non-zero exit (see demo_with.log)",
            "demo_without_change": "exit 0 (see demo_without.log)",
        },
        "checks_run_against_it": {
            "command": "tools/try_mutant.sh %s quick <ID> (git -C /repo apply patch.diff; ./run.sh <ID> quick; git -C /repo checkout -- .)" % name,
            "latest_result_per_check": runs,
        },
    }
    json.dump(meta, open(os.path.join(d, "meta.json"), "w"), indent=1, ensure_ascii=False)
    print(name, prop, {k: v["result"] for k, v in runs.items()})

//! Unit catalogue and exact dimensional arithmetic ("RefDim").
//!
//! Built from the *direct* unit definitions exported by the hooks (each unit's own `unit`
//! statement: base, or factor × defining unit). Base-unit vectors and base factors are computed
//! here by an independent recursion, not by numbat's `to_base_unit_representation`.

use numbat::verif_hooks::{VFactor, VPrefix, VQuantity, VUnitDef};
use std::collections::{BTreeMap, HashMap};

// ------------------------------------------------------------------------------------------
// exact rationals
// ------------------------------------------------------------------------------------------

#[derive(Clone, Copy, Debug, PartialEq, Eq, Hash, PartialOrd, Ord)]
pub struct Rat {
    pub n: i128,
    pub d: i128,
}

fn gcd(a: i128, b: i128) -> i128 {
    let (mut a, mut b) = (a.abs(), b.abs());
    while b != 0 {
        let t = a % b;
        a = b;
        b = t;
    }
    a.max(1)
}

impl Rat {
    pub fn new(n: i128, d: i128) -> Rat {
        assert!(d != 0);
        let g = gcd(n, d);
        let s = if d < 0 { -1 } else { 1 };
        Rat {
            n: s * n / g,
            d: s * d / g,
        }
    }
    pub fn int(n: i128) -> Rat {
        Rat { n, d: 1 }
    }
    pub fn zero() -> Rat {
        Rat::int(0)
    }
    pub fn one() -> Rat {
        Rat::int(1)
    }
    pub fn is_zero(&self) -> bool {
        self.n == 0
    }
    pub fn is_int(&self) -> bool {
        self.d == 1
    }
    pub fn add(self, o: Rat) -> Rat {
        Rat::new(self.n * o.d + o.n * self.d, self.d * o.d)
    }
    pub fn mul(self, o: Rat) -> Rat {
        Rat::new(self.n * o.n, self.d * o.d)
    }
    pub fn neg(self) -> Rat {
        Rat {
            n: -self.n,
            d: self.d,
        }
    }
    pub fn to_f64(self) -> f64 {
        self.n as f64 / self.d as f64
    }
    pub fn from_pair(p: (i128, i128)) -> Rat {
        Rat::new(p.0, p.1)
    }
}

impl std::fmt::Display for Rat {
    fn fmt(&self, f: &mut std::fmt::Formatter<'_>) -> std::fmt::Result {
        if self.d == 1 {
            write!(f, "{}", self.n)
        } else {
            write!(f, "{}/{}", self.n, self.d)
        }
    }
}

/// Exponent vector over named bases (base units or base dimensions); zero entries are removed.
#[derive(Clone, Debug, PartialEq, Eq, Hash, PartialOrd, Ord, Default)]
pub struct DimVec(pub BTreeMap<String, Rat>);

impl DimVec {
    pub fn scalar() -> DimVec {
        DimVec::default()
    }
    pub fn single(name: &str) -> DimVec {
        let mut m = BTreeMap::new();
        m.insert(name.to_string(), Rat::one());
        DimVec(m)
    }
    pub fn is_scalar(&self) -> bool {
        self.0.is_empty()
    }
    pub fn mul(&self, o: &DimVec) -> DimVec {
        let mut m = self.0.clone();
        for (k, v) in &o.0 {
            let e = m.entry(k.clone()).or_insert(Rat::zero());
            *e = e.add(*v);
        }
        m.retain(|_, v| !v.is_zero());
        DimVec(m)
    }
    pub fn pow(&self, e: Rat) -> DimVec {
        let mut m = BTreeMap::new();
        for (k, v) in &self.0 {
            let x = v.mul(e);
            if !x.is_zero() {
                m.insert(k.clone(), x);
            }
        }
        DimVec(m)
    }
    pub fn div(&self, o: &DimVec) -> DimVec {
        self.mul(&o.pow(Rat::int(-1)))
    }
    pub fn from_pairs(p: &[(String, (i128, i128))]) -> DimVec {
        let mut v = DimVec::scalar();
        for (name, e) in p {
            v = v.mul(&DimVec::single(name).pow(Rat::from_pair(*e)));
        }
        v
    }
}

impl std::fmt::Display for DimVec {
    fn fmt(&self, f: &mut std::fmt::Formatter<'_>) -> std::fmt::Result {
        if self.0.is_empty() {
            return write!(f, "1");
        }
        let parts: Vec<String> = self
            .0
            .iter()
            .map(|(k, v)| {
                if *v == Rat::one() {
                    k.clone()
                } else {
                    format!("{k}^({v})")
                }
            })
            .collect();
        write!(f, "{}", parts.join("·"))
    }
}

// ------------------------------------------------------------------------------------------
// independent prefix table (SI brochure 9th ed. + IEC 80000-13, plus the 2022 additions)
// ------------------------------------------------------------------------------------------

#[derive(Clone, Debug)]
pub struct PrefixInfo {
    pub long: &'static str,
    pub shorts: &'static [&'static str],
    pub metric: bool,
    pub exp: i32,
}

pub const PREFIX_TABLE: &[PrefixInfo] = &[
    PrefixInfo { long: "quecto", shorts: &["q"], metric: true, exp: -30 },
    PrefixInfo { long: "ronto", shorts: &["r"], metric: true, exp: -27 },
    PrefixInfo { long: "yocto", shorts: &["y"], metric: true, exp: -24 },
    PrefixInfo { long: "zepto", shorts: &["z"], metric: true, exp: -21 },
    PrefixInfo { long: "atto", shorts: &["a"], metric: true, exp: -18 },
    PrefixInfo { long: "femto", shorts: &["f"], metric: true, exp: -15 },
    PrefixInfo { long: "pico", shorts: &["p"], metric: true, exp: -12 },
    PrefixInfo { long: "nano", shorts: &["n"], metric: true, exp: -9 },
    PrefixInfo { long: "micro", shorts: &["µ", "μ", "u"], metric: true, exp: -6 },
    PrefixInfo { long: "milli", shorts: &["m"], metric: true, exp: -3 },
    PrefixInfo { long: "centi", shorts: &["c"], metric: true, exp: -2 },
    PrefixInfo { long: "deci", shorts: &["d"], metric: true, exp: -1 },
    PrefixInfo { long: "deca", shorts: &["da"], metric: true, exp: 1 },
    PrefixInfo { long: "hecto", shorts: &["h"], metric: true, exp: 2 },
    PrefixInfo { long: "kilo", shorts: &["k"], metric: true, exp: 3 },
    PrefixInfo { long: "mega", shorts: &["M"], metric: true, exp: 6 },
    PrefixInfo { long: "giga", shorts: &["G"], metric: true, exp: 9 },
    PrefixInfo { long: "tera", shorts: &["T"], metric: true, exp: 12 },
    PrefixInfo { long: "peta", shorts: &["P"], metric: true, exp: 15 },
    PrefixInfo { long: "exa", shorts: &["E"], metric: true, exp: 18 },
    PrefixInfo { long: "zetta", shorts: &["Z"], metric: true, exp: 21 },
    PrefixInfo { long: "yotta", shorts: &["Y"], metric: true, exp: 24 },
    PrefixInfo { long: "ronna", shorts: &["R"], metric: true, exp: 27 },
    PrefixInfo { long: "quetta", shorts: &["Q"], metric: true, exp: 30 },
    PrefixInfo { long: "kibi", shorts: &["Ki"], metric: false, exp: 10 },
    PrefixInfo { long: "mebi", shorts: &["Mi"], metric: false, exp: 20 },
    PrefixInfo { long: "gibi", shorts: &["Gi"], metric: false, exp: 30 },
    PrefixInfo { long: "tebi", shorts: &["Ti"], metric: false, exp: 40 },
    PrefixInfo { long: "pebi", shorts: &["Pi"], metric: false, exp: 50 },
    PrefixInfo { long: "exbi", shorts: &["Ei"], metric: false, exp: 60 },
    PrefixInfo { long: "zebi", shorts: &["Zi"], metric: false, exp: 70 },
    PrefixInfo { long: "yobi", shorts: &["Yi"], metric: false, exp: 80 },
    PrefixInfo { long: "robi", shorts: &["Ri"], metric: false, exp: 90 },
    PrefixInfo { long: "quebi", shorts: &["Qi"], metric: false, exp: 100 },
];

impl PrefixInfo {
    pub fn factor(&self) -> f64 {
        if self.metric {
            pow10(self.exp)
        } else {
            2f64.powi(self.exp)
        }
    }
    pub fn vprefix(&self) -> VPrefix {
        if self.metric {
            VPrefix::Metric(self.exp)
        } else {
            VPrefix::Binary(self.exp)
        }
    }
}

/// 10^n computed by parsing the decimal literal (correctly rounded), independent of `powi`.
pub fn pow10(n: i32) -> f64 {
    format!("1e{n}").parse::<f64>().unwrap()
}

pub fn prefix_factor(p: VPrefix) -> f64 {
    match p {
        VPrefix::Metric(n) => pow10(n),
        VPrefix::Binary(n) => 2f64.powi(n),
    }
}

// ------------------------------------------------------------------------------------------
// catalogue
// ------------------------------------------------------------------------------------------

#[derive(Clone, Debug)]
pub struct UnitInfo {
    pub def: VUnitDef,
    /// exponent vector over base *units*
    pub base_units: DimVec,
    /// factor to base units
    pub base_factor: f64,
    /// exponent vector over base *dimensions* (from declared types of the base units)
    pub dims: DimVec,
}

#[derive(Clone, Debug)]
pub struct UnitForm {
    /// identifier as written in source
    pub ident: String,
    pub unit: usize,
    pub alias: String,
    pub prefix: Option<usize>,
    pub short_form: bool,
}

#[derive(Clone, Debug, Default)]
pub struct Catalogue {
    pub units: Vec<UnitInfo>,
    pub by_name: HashMap<String, usize>,
    /// alias -> unit index
    pub by_alias: HashMap<String, usize>,
    /// base unit name -> dimension vector over base dimensions
    pub base_unit_dims: HashMap<String, DimVec>,
    /// units grouped by equal base-unit vector (only groups with >= 1 unit), sorted
    pub groups: Vec<Vec<usize>>,
    /// identifier -> number of distinct (unit, prefix) readings among all accepted forms
    pub readings: HashMap<String, usize>,
    /// names that must not be used as unit spellings (variables/functions of the session)
    pub other_names: std::collections::HashSet<String>,
}

impl Catalogue {
    pub fn build(defs: Vec<VUnitDef>) -> Catalogue {
        let mut by_name = HashMap::new();
        for (i, d) in defs.iter().enumerate() {
            by_name.insert(d.name.clone(), i);
        }
        let mut memo: Vec<Option<(DimVec, f64)>> = vec![None; defs.len()];
        fn resolve(
            i: usize,
            defs: &[VUnitDef],
            by_name: &HashMap<String, usize>,
            memo: &mut Vec<Option<(DimVec, f64)>>,
            depth: usize,
        ) -> (DimVec, f64) {
            if let Some(m) = &memo[i] {
                return m.clone();
            }
            assert!(depth < 64, "unit definition cycle");
            let d = &defs[i];
            let r = if d.is_base {
                (DimVec::single(&d.name), 1.0)
            } else {
                let mut vec = DimVec::scalar();
                let mut factor = d.factor;
                for f in &d.defining {
                    let j = *by_name
                        .get(&f.unit)
                        .unwrap_or_else(|| panic!("unknown defining unit {}", f.unit));
                    let (v, fac) = resolve(j, defs, by_name, memo, depth + 1);
                    let e = Rat::from_pair(f.exponent);
                    vec = vec.mul(&v.pow(e));
                    factor *= pow_rat(prefix_factor(f.prefix) * fac, e);
                }
                (vec, factor)
            };
            memo[i] = Some(r.clone());
            r
        }
        let mut resolved = vec![];
        for i in 0..defs.len() {
            resolved.push(resolve(i, &defs, &by_name, &mut memo, 0));
        }
        let mut base_unit_dims = HashMap::new();
        for d in &defs {
            if d.is_base {
                base_unit_dims.insert(d.name.clone(), DimVec::from_pairs(&d.type_base_repr));
            }
        }
        let mut units = vec![];
        let mut by_alias = HashMap::new();
        for (i, d) in defs.into_iter().enumerate() {
            let (bu, bf) = resolved[i].clone();
            let mut dims = DimVec::scalar();
            for (b, e) in &bu.0 {
                let bd = base_unit_dims.get(b).cloned().unwrap_or_default();
                dims = dims.mul(&bd.pow(*e));
            }
            for (a, _, _) in &d.aliases {
                by_alias.insert(a.clone(), i);
            }
            units.push(UnitInfo {
                def: d,
                base_units: bu,
                base_factor: bf,
                dims,
            });
        }
        let mut gm: BTreeMap<DimVec, Vec<usize>> = BTreeMap::new();
        for (i, u) in units.iter().enumerate() {
            gm.entry(u.base_units.clone()).or_default().push(i);
        }
        let groups = gm.into_values().collect();
        let mut cat = Catalogue {
            units,
            by_name,
            by_alias,
            base_unit_dims,
            groups,
            readings: HashMap::new(),
            other_names: Default::default(),
        };
        let mut seen: HashMap<String, std::collections::BTreeSet<(usize, Option<usize>)>> =
            HashMap::new();
        for f in cat.all_forms() {
            seen.entry(f.ident).or_default().insert((f.unit, f.prefix));
        }
        cat.readings = seen.into_iter().map(|(k, v)| (k, v.len())).collect();
        cat
    }

    /// All spellings of a unit that are single identifiers with exactly one reading:
    /// (identifier, factor to base units, prefix index). The primary name comes first, then the
    /// other bare aliases, then prefixed forms.
    pub fn usable_forms(&self, unit: usize) -> Vec<(String, f64, Option<usize>)> {
        let u = &self.units[unit];
        let mut out = vec![(u.def.name.clone(), u.base_factor, None)];
        for (alias, _, _) in &u.def.aliases {
            if alias != &u.def.name && self.unambiguous(alias) {
                out.push((alias.clone(), u.base_factor, None));
            }
        }
        for (alias, short, long) in &u.def.aliases {
            if !alias.chars().next().map(|c| c.is_alphabetic()).unwrap_or(false) {
                continue;
            }
            for (pi, is_short) in self.accepted_prefixes(unit, *short, *long) {
                let p = &PREFIX_TABLE[pi];
                let spellings: Vec<String> = if is_short {
                    p.shorts.iter().map(|s| format!("{s}{alias}")).collect()
                } else {
                    vec![format!("{}{alias}", p.long)]
                };
                for ident in spellings {
                    if self.unambiguous(&ident) {
                        out.push((ident, p.factor() * u.base_factor, Some(pi)));
                    }
                }
            }
        }
        out
    }

    /// true iff the identifier has exactly one reading as a unit and is no other name
    pub fn unambiguous(&self, ident: &str) -> bool {
        self.readings.get(ident).copied() == Some(1) && !self.other_names.contains(ident)
    }

    pub fn unit(&self, name: &str) -> Option<&UnitInfo> {
        self.by_name.get(name).map(|i| &self.units[*i])
    }

    /// All ordered pairs (i, j), i != j, of units with the same base-unit vector.
    pub fn same_dimension_pairs(&self) -> Vec<(usize, usize)> {
        let mut out = vec![];
        for g in &self.groups {
            for &a in g {
                for &b in g {
                    if a != b {
                        out.push((a, b));
                    }
                }
            }
        }
        out
    }

    /// Which prefixes does this unit accept for the given alias form (by its decorators)?
    pub fn accepted_prefixes(&self, unit: usize, short: bool, long: bool) -> Vec<(usize, bool)> {
        let d = &self.units[unit].def;
        let mut out = vec![];
        for (pi, p) in PREFIX_TABLE.iter().enumerate() {
            let family_ok = if p.metric {
                d.metric_prefixes
            } else {
                d.binary_prefixes
            };
            if !family_ok {
                continue;
            }
            if long {
                out.push((pi, false));
            }
            if short {
                out.push((pi, true));
            }
        }
        out
    }

    /// Every accepted spelling of every unit: bare aliases and accepted prefixed forms.
    pub fn all_forms(&self) -> Vec<UnitForm> {
        let mut out = vec![];
        for (ui, u) in self.units.iter().enumerate() {
            for (alias, short, long) in &u.def.aliases {
                out.push(UnitForm {
                    ident: alias.clone(),
                    unit: ui,
                    alias: alias.clone(),
                    prefix: None,
                    short_form: false,
                });
                for (pi, is_short) in self.accepted_prefixes(ui, *short, *long) {
                    let p = &PREFIX_TABLE[pi];
                    if is_short {
                        for s in p.shorts {
                            out.push(UnitForm {
                                ident: format!("{s}{alias}"),
                                unit: ui,
                                alias: alias.clone(),
                                prefix: Some(pi),
                                short_form: true,
                            });
                        }
                    } else {
                        out.push(UnitForm {
                            ident: format!("{}{alias}", p.long),
                            unit: ui,
                            alias: alias.clone(),
                            prefix: Some(pi),
                            short_form: false,
                        });
                    }
                }
            }
        }
        out
    }

    // ---- physical values ------------------------------------------------------------------

    /// (base-unit vector, factor to base units) of a factor list
    pub fn unit_of_factors(&self, fs: &[VFactor]) -> Option<(DimVec, f64)> {
        let mut vec = DimVec::scalar();
        let mut factor = 1.0;
        for f in fs {
            let u = self.unit(&f.unit)?;
            let e = Rat::from_pair(f.exponent);
            vec = vec.mul(&u.base_units.pow(e));
            factor *= pow_rat(prefix_factor(f.prefix) * u.base_factor, e);
        }
        Some((vec, factor))
    }

    /// Physical value (magnitude in base units, base-unit vector) of a quantity.
    pub fn physical(&self, q: &VQuantity) -> Option<Phys> {
        // the product of many unit factors can leave the f64 range although the final
        // magnitude does not: accumulate with a separate binary exponent
        let mut vec = DimVec::scalar();
        let mut acc = Big::from_f64(q.value);
        for f in &q.factors {
            let u = self.unit(&f.unit)?;
            let e = Rat::from_pair(f.exponent);
            vec = vec.mul(&u.base_units.pow(e));
            acc = acc.mul(Big::from_f64(prefix_factor(f.prefix) * u.base_factor).pow(e));
        }
        Some(Phys {
            mag: acc.to_f64(),
            vec,
        })
    }

    /// dimension vector (over base dimensions) of a base-unit vector
    pub fn dims_of(&self, base_units: &DimVec) -> DimVec {
        let mut dims = DimVec::scalar();
        for (b, e) in &base_units.0 {
            let bd = self.base_unit_dims.get(b).cloned().unwrap_or_default();
            dims = dims.mul(&bd.pow(*e));
        }
        dims
    }
}

pub fn pow_rat(x: f64, e: Rat) -> f64 {
    if e.is_int() && e.n.abs() <= i32::MAX as i128 {
        x.powi(e.n as i32)
    } else {
        x.powf(e.to_f64())
    }
}

#[derive(Clone, Debug, PartialEq)]
pub struct Phys {
    pub mag: f64,
    pub vec: DimVec,
}

impl Phys {
    pub fn scalar(x: f64) -> Phys {
        Phys {
            mag: x,
            vec: DimVec::scalar(),
        }
    }
    pub fn mul(&self, o: &Phys) -> Phys {
        Phys {
            mag: self.mag * o.mag,
            vec: self.vec.mul(&o.vec),
        }
    }
    pub fn div(&self, o: &Phys) -> Phys {
        Phys {
            mag: self.mag / o.mag,
            vec: self.vec.div(&o.vec),
        }
    }
    pub fn pow(&self, e: Rat) -> Phys {
        Phys {
            mag: pow_rat(self.mag, e),
            vec: self.vec.pow(e),
        }
    }
}

/// relative closeness with a floor for exact zeros
pub fn rel_close(a: f64, b: f64, tol: f64) -> bool {
    if a == b {
        return true;
    }
    if a.is_nan() || b.is_nan() {
        return a.is_nan() && b.is_nan();
    }
    if a.is_infinite() || b.is_infinite() {
        return false;
    }
    let scale = a.abs().max(b.abs());
    (a - b).abs() <= tol * scale
}

thread_local! {
    static CATALOGUE: std::cell::RefCell<Option<std::rc::Rc<Catalogue>>> = const { std::cell::RefCell::new(None) };
}

/// Catalogue of the prelude's units (built once per thread).
pub fn prelude_catalogue() -> std::rc::Rc<Catalogue> {
    CATALOGUE.with(|c| {
        let mut c = c.borrow_mut();
        if c.is_none() {
            let ctx = crate::session::prelude();
            let mut cat = Catalogue::build(ctx.verif_unit_definitions());
            cat.other_names = ctx
                .variable_names()
                .chain(ctx.function_names())
                .map(|s| s.to_string())
                .collect();
            *c = Some(std::rc::Rc::new(cat));
        }
        c.as_ref().unwrap().clone()
    })
}

pub fn catalogue_of(ctx: &numbat::Context) -> Catalogue {
    Catalogue::build(ctx.verif_unit_definitions())
}

/// f64 with a separate binary exponent (value = m · 2^e), so that products of many unit
/// factors neither overflow nor underflow before the final result is formed.
#[derive(Clone, Copy, Debug)]
pub struct Big {
    pub m: f64,
    pub e: i64,
}

impl Big {
    pub fn from_f64(x: f64) -> Big {
        Big { m: x, e: 0 }.norm()
    }
    fn norm(self) -> Big {
        if self.m == 0.0 || !self.m.is_finite() {
            return Big { m: self.m, e: 0 };
        }
        // bring |m| into [1, 2); pre-scale extreme values so that the power of two used below
        // (and its reciprocal, which is how powi treats negative exponents) stays finite
        let (mut m, mut e) = (self.m, self.e);
        if m.abs() < 1e-250 {
            m *= 2f64.powi(800);
            e -= 800;
        } else if m.abs() > 1e250 {
            m /= 2f64.powi(800);
            e += 800;
        }
        let bits = m.abs().log2().floor() as i64;
        Big {
            m: m / 2f64.powi(bits as i32),
            e: e + bits,
        }
    }
    pub fn mul(self, o: Big) -> Big {
        Big {
            m: self.m * o.m,
            e: self.e + o.e,
        }
        .norm()
    }
    pub fn pow(self, r: Rat) -> Big {
        if self.m == 0.0 || !self.m.is_finite() {
            return Big::from_f64(pow_rat(self.m, r));
        }
        // (m·2^e)^r = m^r · 2^(e·r); split e·r into integer and fractional part
        let er_num = self.e as i128 * r.n;
        let int = er_num.div_euclid(r.d);
        let frac = (er_num.rem_euclid(r.d)) as f64 / r.d as f64;
        Big {
            m: pow_rat(self.m, r) * 2f64.powf(frac),
            e: int as i64,
        }
        .norm()
    }
    pub fn to_f64(self) -> f64 {
        if self.m == 0.0 || !self.m.is_finite() {
            return self.m;
        }
        if self.e > 1100 {
            return self.m.signum() * f64::INFINITY;
        }
        if self.e < -1200 {
            return 0.0 * self.m.signum();
        }
        // two steps avoid overflow of the scale factor itself
        let half = self.e / 2;
        self.m * 2f64.powi(half as i32) * 2f64.powi((self.e - half) as i32)
    }
}

//! C20 — HTML rendering never emits user-controlled markup.

use crate::engine::*;
use crate::session::*;
use crate::PropDef;
use numbat::buffered_writer::BufferedWriter;
use numbat::diagnostic::{ErrorDiagnostic, ResolverDiagnostic};
use numbat::html_formatter::{HtmlFormatter, HtmlWriter};
use numbat::markup::{Formatter, Markup, PlainTextFormatter};
use numbat::pretty_print::PrettyPrint;
use numbat::resolver::CodeSource;
use numbat::{InterpreterSettings, NumbatError};
use proptest::prelude::*;
use serde::{Deserialize, Serialize};
use serde_json::{Value as J, json};
use std::sync::{Arc, Mutex};

pub fn def() -> PropDef {
    PropDef {
        id: "C20",
        run,
        replay,
    }
}

#[derive(Clone, Debug, Serialize, Deserialize)]
struct Case {
    template: u8,
    payload: String,
    payload2: String,
}

const FIXED_PAYLOADS: &[&str] = &[
    "<img src=x onerror=alert(1)>",
    "</span><script>alert(1)</script>",
    "a & b < c > d",
    "&lt;b&gt;",
    "<b>bold</b>",
    "'><svg/onload=alert(1)>",
    "&amp;&",
    "x<y",
];

/// Templates: `P` and `Q` are replaced by payloads. Some succeed, some fail at each stage.
const TEMPLATES: &[&str] = &[
    // successful results / prints / echoes
    "\"P\"",
    "print(\"P\")",
    "[\"P\", \"Q\"]",
    "let s = \"P\"\ns",
    "\"x = {1 + 1} P\"",
    "str_append(\"P\", \"Q\")",
    "print(\"P\")\nprint(\"Q\")\n\"P\" == \"Q\"",
    "struct S { a: String }\nS { a: \"P\" }",
    "fn f(x: String) -> String = str_append(x, \"Q\")\nf(\"P\")",
    // parse / tokenizer errors (source line is quoted in the diagnostic)
    "let x = 1 P",
    "§ P",
    "1 + # P",
    "let x: P = 1",
    "\"P",
    "fn (P) = 1",
    // resolver / name resolution
    "use foo::bar P",
    "use P",
    "let m = \"P\"",
    // type errors
    "\"P\" + 1",
    "unknown_function(\"P\")",
    "\"P\" -> m",
    "if \"P\" then 1 else 2",
    "let y: Length = \"P\"",
    "struct S { a: String }\nS { b: \"P\" }",
    "[1, \"P\"]",
    // runtime errors
    "error(\"P\")",
    "assert_eq(\"P\", \"Q\")",
    "assert(\"P\" == \"Q\")",
    "1 / 0 # P",
    "head([]) # P Q",
    "fn g(x: String) -> Scalar = error(x)\ng(\"P\")",
    "datetime(\"P\")",
    "tz(\"P\")(now())",
    "format_datetime(\"%Q P\", now())",
    "element(\"P\")",
];

fn payload_strategy() -> impl Strategy<Value = String> {
    prop_oneof![
        2 => (0..FIXED_PAYLOADS.len()).prop_map(|i| FIXED_PAYLOADS[i].to_string()),
        3 => proptest::collection::vec(
            prop_oneof![
                4 => Just("<"), 4 => Just(">"), 4 => Just("&"), 1 => Just("'"), 1 => Just("/"), 1 => Just("="),
                1 => Just(" "), 1 => Just("a"), 1 => Just("script"), 1 => Just("span"), 1 => Just("&lt;"), 1 => Just("&amp;"),
                1 => Just(";"), 1 => Just("é"), 1 => Just("#"), 1 => Just("class=\\\"numbat-x\\\"")
            ],
            1..8
        )
        .prop_map(|v| v.concat()),
    ]
}

fn case_strategy() -> impl Strategy<Value = Case> {
    (0..TEMPLATES.len() as u8, payload_strategy(), payload_strategy()).prop_map(|(template, payload, payload2)| Case {
        template,
        payload,
        payload2,
    })
}

fn unescape(s: &str) -> Result<String, String> {
    let mut out = String::new();
    let mut rest = s;
    while let Some(i) = rest.find('&') {
        out.push_str(&rest[..i]);
        let tail = &rest[i..];
        let ents = [("&amp;", "&"), ("&lt;", "<"), ("&gt;", ">"), ("&quot;", "\""), ("&#x27;", "'"), ("&#39;", "'"), ("&#x2F;", "/")];
        let mut matched = false;
        for (e, c) in ents {
            if tail.starts_with(e) {
                out.push_str(c);
                rest = &tail[e.len()..];
                matched = true;
                break;
            }
        }
        if !matched {
            return Err(format!("a bare `&` (not one of the escaper's entities) at `{}`", &tail[..tail.len().min(20)]));
        }
    }
    out.push_str(rest);
    Ok(out)
}

/// Remove the renderer's own span tags; what is left must be free of `<` and `>`.
fn strip_own_tags(html: &str) -> Result<String, String> {
    let mut out = String::new();
    let mut rest = html;
    let mut depth = 0i32;
    loop {
        let Some(i) = rest.find('<') else {
            out.push_str(rest);
            break;
        };
        out.push_str(&rest[..i]);
        let tail = &rest[i..];
        if let Some(t) = tail.strip_prefix("</span>") {
            depth -= 1;
            if depth < 0 {
                return Err("unbalanced </span>".into());
            }
            rest = t;
            continue;
        }
        if let Some(t) = tail.strip_prefix("<span class=\"numbat-") {
            let end = t.find("\">").ok_or("unterminated span tag")?;
            let class = &t[..end];
            if class.is_empty() || !class.chars().all(|c| c.is_ascii_lowercase() || c == '-') {
                return Err(format!("span class built from foreign text: `{class}`"));
            }
            depth += 1;
            rest = &t[end + 2..];
            continue;
        }
        return Err(format!("foreign tag at `{}`", &tail[..tail.len().min(40)]));
    }
    if depth != 0 {
        return Err("unbalanced span tags".into());
    }
    if out.contains('>') {
        return Err("an unescaped `>` outside the renderer's own tags".into());
    }
    Ok(out)
}

fn render(code: &str) -> Result<(String, String, bool), (String, String)> {
    catch(|| {
        let mut ctx = prelude();
        let printed: Arc<Mutex<Vec<Markup>>> = Arc::new(Mutex::new(vec![]));
        let p2 = printed.clone();
        let mut settings = InterpreterSettings {
            print_fn: Box::new(move |m| p2.lock().unwrap().push(m.clone())),
        };
        let html_f = HtmlFormatter {};
        let plain_f = PlainTextFormatter {};
        match ctx.interpret_with_settings(&mut settings, code, CodeSource::Text).map_err(|b| *b) {
            Ok((statements, result)) => {
                let mut html = String::new();
                let mut plain = String::new();
                let mut both = |m: &Markup| {
                    html.push_str(&html_f.format(m, false));
                    plain.push_str(&plain_f.format(m, false));
                };
                for s in &statements {
                    both(&s.pretty_print());
                    both(&numbat::markup::nl());
                }
                for m in printed.lock().unwrap().iter() {
                    both(m);
                    both(&numbat::markup::nl());
                }
                let rm = result.to_markup(statements.last(), ctx.dimension_registry(), true, true, &numbat::FormatOptions::default());
                both(&rm);
                (html, plain, false)
            }
            Err(e) => {
                use codespan_reporting::term::{self, Config};
                let diags = match &e {
                    NumbatError::ResolverError(e) => e.diagnostics(),
                    NumbatError::NameResolutionError(e) => e.diagnostics(),
                    NumbatError::TypeCheckError(e) => e.diagnostics(),
                    NumbatError::RuntimeError(e) => ResolverDiagnostic { resolver: ctx.resolver(), error: e }.diagnostics(),
                };
                let config = Config::default();
                let mut hw = HtmlWriter::new();
                let mut pw = termcolor::NoColor::new(Vec::<u8>::new());
                for d in &diags {
                    term::emit(&mut hw, &config, &ctx.resolver().files, d).expect("emit html");
                    term::emit(&mut pw, &config, &ctx.resolver().files, d).expect("emit plain");
                }
                (hw.to_string(), String::from_utf8_lossy(pw.get_ref()).to_string(), true)
            }
        }
    })
}

fn check(c: &Case, st: &mut Stats) -> CheckResult {
    st.eval();
    let t = TEMPLATES[c.template as usize % TEMPLATES.len()];
    let code = t.replace('P', &c.payload).replace('Q', &c.payload2);
    let (html, plain, is_error) = match render(&code) {
        Ok(r) => r,
        Err((loc, msg)) => return Err(Failure::new(format!("panic:{loc}"), format!("rendering `{code}` panicked at {loc}: {msg}"))),
    };
    let which = if is_error { "diagnostic" } else { "output" };
    let remainder = strip_own_tags(&html).map_err(|e| {
        Failure::new(
            format!("foreign-markup-in-{which}"),
            format!("HTML rendering of `{}` contains {e}; html: {}", code.replace('\n', "\\n"), &html[..html.len().min(400)]),
        )
    })?;
    let text = unescape(&remainder).map_err(|e| {
        Failure::new(
            format!("foreign-markup-in-{which}"),
            format!("HTML rendering of `{}` contains {e}", code.replace('\n', "\\n")),
        )
    })?;
    if text != plain {
        return Err(Failure::new(
            format!("html-text-differs-in-{which}"),
            format!(
                "un-escaped HTML rendering differs from the plain rendering for `{}`:\n html-> {:?}\n plain-> {:?}",
                code.replace('\n', "\\n"), &text[..text.len().min(300)], &plain[..plain.len().min(300)]
            ),
        ));
    }
    st.label(&format!("kind:{which}"));
    st.label(&format!("template:{}", c.template as usize % TEMPLATES.len()));
    if plain.contains('<') || plain.contains('>') || plain.contains('&') {
        st.nontrivial_with_sample(hash_str(&code), || json!({"input": code, "kind": which, "html_prefix": &html[..html.len().min(160)]}));
    }
    Ok(())
}

fn run(cfg: &Cfg) -> Report {
    let mut rep = Report::new(
        cfg,
        "36 input templates (results, prints, echoed statements, struct and list values, interpolation; tokenizer, parser, resolver, name, type and run-time errors incl. user errors, failed assertions, date parsing, backtraces; payloads in strings, comments, invalid tokens, type annotations, module paths) x payloads made of `< > & ' / =`, tag and entity fragments and fixed XSS strings. Successful inputs are rendered as numbat-wasm does (echo of every statement, prints, result) through HtmlFormatter; failures through HtmlWriter + codespan term::emit. Oracle: after removing the renderer's own `<span class=\"numbat-…\">`/`</span>` tokens (balanced, class names from [a-z-] only) no `<` or `>` remains and every `&` starts an entity of the escaper; un-escaping the remainder gives exactly the plain-text rendering (PlainTextFormatter / termcolor::NoColor) of the same markup or diagnostic. non-trivial = the plain rendering contains `<`, `>` or `&`; distinct = input text",
    );
    let cases = cfg.tier.pick(8000u32, 60000u32);
    rep.absorb(run_proptest(
        cfg,
        "render",
        cases,
        case_strategy,
        |c: &Case| serde_json::to_value(c).unwrap(),
        check,
    ));
    rep
}

fn replay(_sub: &str, case: &J) -> CheckResult {
    let c: Case = serde_json::from_value(case.clone()).map_err(|e| Failure::new("harness", e.to_string()))?;
    check(&c, &mut Stats::default())
}

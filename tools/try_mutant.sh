#!/bin/bash
# try_mutant.sh <name> <tier> <ID> [<ID> ...]
# Applies /verif/seeded/<name>/patch.diff to /repo, runs the named checks, and undoes the change
# straight afterwards (also on interruption). Prints one line per check: caught / missed.
set -u
name="$1"; tier="$2"; shift 2
patch=/verif/seeded/$name/patch.diff
[ -s "$patch" ] || { echo "no patch $patch"; exit 2; }
if ! git -C /repo diff --quiet; then echo "/repo is not clean"; exit 2; fi
undo() { git -C /repo checkout -- . ; }
trap undo EXIT INT TERM
git -C /repo apply "$patch" || exit 2
mkdir -p /verif/seeded/$name/runs
for id in "$@"; do
  log=/verif/seeded/$name/runs/$id-$tier.log
  start=$(date +%s)
  VERIF_SEED=${VERIF_SEED:-0} /verif/run.sh "$id" "$tier" > "$log" 2>&1
  code=$?
  secs=$(( $(date +%s) - start ))
  sig=$(grep -m1 'signature' "$log" | cut -c1-160)
  if [ $code -eq 1 ] && grep -q '^VIOLATION' "$log"; then echo "$name $id $tier: CAUGHT in ${secs}s  $sig"
  elif [ $code -eq 0 ]; then echo "$name $id $tier: missed (${secs}s)"
  else echo "$name $id $tier: exit $code (${secs}s) $(tail -1 "$log" | cut -c1-120)"; fi
  rm -f /verif/replays/$id/fail-*.json
done
undo
trap - EXIT INT TERM
git -C /repo status --short | head -3

//! Shared engine: sharded proptest runs, exhaustive enumerations, statistics, known findings,
//! replay files, evidence files and exit codes.

use proptest::strategy::{Strategy, ValueTree};
use proptest::test_runner::{Config, RngSeed, TestCaseError, TestError, TestRunner};
use rayon::prelude::*;
use serde_json::{Value as J, json};
use std::cell::RefCell;
use std::collections::{BTreeMap, HashSet};
use std::hash::{Hash, Hasher};
use std::path::PathBuf;
use std::sync::Mutex;
use std::sync::atomic::{AtomicBool, AtomicU64, Ordering};
use std::time::Instant;

/// Root of the verification tree (known findings, replays, evidence). `/verif` unless
/// `VERIF_ROOT` is set (used by background runs from a snapshot of /verif).
pub fn verif_dir() -> String {
    std::env::var("VERIF_ROOT").unwrap_or_else(|_| "/verif".to_string())
}
pub const SHARDS: usize = 16;

#[derive(Clone, Copy, PartialEq, Eq, Debug)]
pub enum Tier {
    Quick,
    Thorough,
}

impl Tier {
    pub fn name(self) -> &'static str {
        match self {
            Tier::Quick => "quick",
            Tier::Thorough => "thorough",
        }
    }
    /// pick by tier
    pub fn pick<T>(self, quick: T, thorough: T) -> T {
        match self {
            Tier::Quick => quick,
            Tier::Thorough => thorough,
        }
    }
}

#[derive(Clone, Debug)]
pub struct Cfg {
    pub id: String,
    pub tier: Tier,
    pub seed: u64,
}

// ------------------------------------------------------------------------------------------
// hashing helpers (deterministic, no RandomState)
// ------------------------------------------------------------------------------------------

pub fn fnv(data: &[u8]) -> u64 {
    let mut h: u64 = 0xcbf29ce484222325;
    for b in data {
        h ^= *b as u64;
        h = h.wrapping_mul(0x100000001b3);
    }
    h
}

pub fn hash_str(s: &str) -> u64 {
    fnv(s.as_bytes())
}

pub fn hash_of<T: Hash>(t: &T) -> u64 {
    struct F(u64);
    impl Hasher for F {
        fn finish(&self) -> u64 {
            self.0
        }
        fn write(&mut self, bytes: &[u8]) {
            for b in bytes {
                self.0 ^= *b as u64;
                self.0 = self.0.wrapping_mul(0x100000001b3);
            }
        }
    }
    let mut f = F(0xcbf29ce484222325);
    t.hash(&mut f);
    f.finish()
}

pub fn splitmix64(mut x: u64) -> u64 {
    x = x.wrapping_add(0x9E3779B97F4A7C15);
    let mut z = x;
    z = (z ^ (z >> 30)).wrapping_mul(0xBF58476D1CE4E5B9);
    z = (z ^ (z >> 27)).wrapping_mul(0x94D049BB133111EB);
    z ^ (z >> 31)
}

pub fn shard_seed(seed: u64, id: &str, sub: &str, shard: usize) -> u64 {
    splitmix64(splitmix64(seed ^ hash_str(id)) ^ hash_str(sub).rotate_left(17) ^ (shard as u64))
}

// ------------------------------------------------------------------------------------------
// statistics
// ------------------------------------------------------------------------------------------

#[derive(Default, Clone)]
pub struct Stats {
    pub evaluations: u64,
    pub nontrivial: HashSet<u64>,
    pub labels: BTreeMap<String, u64>,
    pub samples: Vec<J>,
    pub nontrivial_samples: Vec<J>,
    pub excluded: u64,
    /// key -> (count, first example)
    pub known_hits: BTreeMap<String, (u64, J)>,
    pub frozen: bool,
}

pub const MAX_SAMPLES: usize = 12;

impl Stats {
    pub fn eval(&mut self) {
        if !self.frozen {
            self.evaluations += 1;
        }
    }
    pub fn evals(&mut self, n: u64) {
        if !self.frozen {
            self.evaluations += n;
        }
    }
    pub fn label(&mut self, l: &str) {
        if !self.frozen {
            *self.labels.entry(l.to_string()).or_insert(0) += 1;
        }
    }
    pub fn label_n(&mut self, l: &str, n: u64) {
        if !self.frozen && n > 0 {
            *self.labels.entry(l.to_string()).or_insert(0) += n;
        }
    }
    pub fn excluded(&mut self, l: &str) {
        if !self.frozen {
            self.excluded += 1;
            *self.labels.entry(format!("excluded:{l}")).or_insert(0) += 1;
        }
    }
    /// record a distinct non-trivial case (by hash)
    pub fn nontrivial(&mut self, h: u64) -> bool {
        if self.frozen {
            return false;
        }
        self.nontrivial.insert(h)
    }
    pub fn nontrivial_with_sample(&mut self, h: u64, sample: impl FnOnce() -> J) {
        if self.frozen {
            return;
        }
        if self.nontrivial.insert(h) && self.nontrivial_samples.len() < MAX_SAMPLES {
            self.nontrivial_samples.push(sample());
        }
    }
    pub fn sample(&mut self, sample: impl FnOnce() -> J) {
        if !self.frozen && self.samples.len() < MAX_SAMPLES {
            self.samples.push(sample());
        }
    }
    pub fn merge(&mut self, o: Stats) {
        self.evaluations += o.evaluations;
        self.nontrivial.extend(o.nontrivial);
        for (k, v) in o.labels {
            *self.labels.entry(k).or_insert(0) += v;
        }
        for s in o.samples {
            if self.samples.len() < MAX_SAMPLES {
                self.samples.push(s);
            }
        }
        for s in o.nontrivial_samples {
            if self.nontrivial_samples.len() < MAX_SAMPLES {
                self.nontrivial_samples.push(s);
            }
        }
        self.excluded += o.excluded;
        for (k, (n, ex)) in o.known_hits {
            let e = self.known_hits.entry(k).or_insert((0, ex));
            e.0 += n;
        }
    }
}

// ------------------------------------------------------------------------------------------
// failures and known findings
// ------------------------------------------------------------------------------------------

#[derive(Clone, Debug)]
pub struct Failure {
    /// human-readable description
    pub what: String,
    /// class signature used to match known findings (e.g. `panic:numbat/src/x.rs:12`)
    pub signature: String,
    pub detail: J,
}

impl Failure {
    pub fn new(signature: impl Into<String>, what: impl Into<String>) -> Failure {
        Failure {
            what: what.into(),
            signature: signature.into(),
            detail: J::Null,
        }
    }
    pub fn with(mut self, detail: J) -> Failure {
        self.detail = detail;
        self
    }
}

pub type CheckResult = Result<(), Failure>;

#[derive(Clone, Debug)]
pub struct KnownEntry {
    pub property: String,
    pub key: String,
    pub what: String,
    pub status: String,
    pub example: J,
}

pub struct KnownFindings {
    pub entries: Vec<KnownEntry>,
}

impl KnownFindings {
    pub fn load() -> KnownFindings {
        let path = format!("{}/known_findings.jsonl", verif_dir());
        let mut entries = vec![];
        if let Ok(text) = std::fs::read_to_string(&path) {
            for line in text.lines() {
                let line = line.trim();
                if line.is_empty() || line.starts_with('#') {
                    continue;
                }
                if let Ok(v) = serde_json::from_str::<J>(line) {
                    entries.push(KnownEntry {
                        property: v["property"].as_str().unwrap_or("").to_string(),
                        key: v["key"].as_str().unwrap_or("").to_string(),
                        what: v["what"].as_str().unwrap_or("").to_string(),
                        status: v["status"].as_str().unwrap_or("known").to_string(),
                        example: v["example"].clone(),
                    });
                }
            }
        }
        KnownFindings { entries }
    }

    /// A failure matches a *known* (not fixed) entry iff the property is the same and the
    /// failure's signature equals the entry's key.
    pub fn matches(&self, property: &str, signature: &str) -> Option<&KnownEntry> {
        self.entries
            .iter()
            .find(|e| e.status == "known" && e.property == property && e.key == signature)
    }

    pub fn known_for<'a>(&'a self, property: &'a str) -> impl Iterator<Item = &'a KnownEntry> {
        self.entries
            .iter()
            .filter(move |e| e.status == "known" && e.property == property)
    }
}

pub static KNOWN: std::sync::OnceLock<KnownFindings> = std::sync::OnceLock::new();

pub fn known() -> &'static KnownFindings {
    KNOWN.get_or_init(KnownFindings::load)
}

// ------------------------------------------------------------------------------------------
// report of one property run
// ------------------------------------------------------------------------------------------

#[derive(Clone, Debug)]
pub struct Violation {
    pub sub: String,
    pub case: J,
    pub failure: Failure,
}

pub struct Report {
    pub cfg: Cfg,
    pub stats: Stats,
    pub violations: Vec<Violation>,
    pub rule: String,
    pub exhaustive: Option<bool>,
    pub extra: BTreeMap<String, J>,
    pub assumptions: Vec<String>,
    pub infra_errors: Vec<String>,
    pub started: Instant,
}

impl Report {
    pub fn new(cfg: &Cfg, rule: &str) -> Report {
        Report {
            cfg: cfg.clone(),
            stats: Stats::default(),
            violations: vec![],
            rule: rule.to_string(),
            exhaustive: None,
            extra: BTreeMap::new(),
            assumptions: vec![],
            infra_errors: vec![],
            started: Instant::now(),
        }
    }

    pub fn absorb(&mut self, out: RunOutput) {
        self.stats.merge(out.stats);
        for v in out.violations {
            // trouble inside the harness or its environment is never reported as a violation
            if v.failure.signature == "harness"
                || v.failure.signature == "infra"
                || v.failure.signature.starts_with("panic:harness/")
            {
                self.infra_errors
                    .push(format!("{}: {} (case {})", v.failure.signature, v.failure.what, v.case));
            } else {
                self.violations.push(v);
            }
        }
        self.infra_errors.extend(out.infra_errors);
    }

    pub fn failed(&self) -> bool {
        !self.violations.is_empty()
    }

    pub fn extra(&mut self, k: &str, v: J) {
        self.extra.insert(k.to_string(), v);
    }

    pub fn assume(&mut self, s: &str) {
        self.assumptions.push(s.to_string());
    }

    /// Asserts a minimum fraction for a label (generator health). Failing it is an
    /// infrastructure error (exit 2), never a violation.
    pub fn require_label_fraction(&mut self, label: &str, of: &str, min: f64) {
        if self.failed() {
            return;
        }
        let n = *self.stats.labels.get(label).unwrap_or(&0) as f64;
        let d = *self.stats.labels.get(of).unwrap_or(&0) as f64;
        if d == 0.0 || n / d < min {
            self.infra_errors.push(format!(
                "generator health: label '{label}' is {n} of {d} '{of}' (< {min})"
            ));
        }
    }
}

pub struct RunOutput {
    pub stats: Stats,
    pub violations: Vec<Violation>,
    pub infra_errors: Vec<String>,
}

// ------------------------------------------------------------------------------------------
// panic capture
// ------------------------------------------------------------------------------------------

thread_local! {
    pub static LAST_PANIC: RefCell<Option<(String, String)>> = const { RefCell::new(None) };
}

/// CPU time consumed by the calling thread, in seconds. Used instead of wall-clock time
/// wherever slowness is part of an oracle: it does not depend on how busy the machine is.
pub fn thread_cpu_seconds() -> f64 {
    let mut ts = libc::timespec { tv_sec: 0, tv_nsec: 0 };
    // SAFETY: plain syscall wrapper writing into a local struct
    let rc = unsafe { libc::clock_gettime(libc::CLOCK_THREAD_CPUTIME_ID, &mut ts) };
    if rc != 0 {
        return 0.0;
    }
    ts.tv_sec as f64 + ts.tv_nsec as f64 * 1e-9
}

// ------------------------------------------------------------------------------------------
// hang watchdog (C08): an evaluation that never returns cannot be judged by the thread that
// runs it. Evaluations register themselves; a watchdog thread reads the CPU clock of every
// registered thread once a second. An evaluation that has consumed more than HANG_CPU_SECONDS
// of CPU time on its own (not wall-clock time: load does not count) is reported as a violation
// with the input as the replay file, and the process ends with exit code 1.
// ------------------------------------------------------------------------------------------

pub const HANG_CPU_SECONDS: f64 = 90.0;

struct Watched {
    id: String,
    sub: String,
    case: J,
    what: String,
    thread: libc::pthread_t,
    cpu_at_start: f64,
}

fn watch_table() -> &'static Mutex<(u64, BTreeMap<u64, Watched>)> {
    static T: std::sync::OnceLock<Mutex<(u64, BTreeMap<u64, Watched>)>> = std::sync::OnceLock::new();
    T.get_or_init(|| {
        std::thread::Builder::new()
            .name("hang-watchdog".into())
            .spawn(watchdog_loop)
            .expect("watchdog thread");
        Mutex::new((0, BTreeMap::new()))
    })
}

fn cpu_seconds_of(thread: libc::pthread_t) -> Option<f64> {
    let mut clock: libc::clockid_t = 0;
    // SAFETY: plain libc calls on a thread handle that is alive while it is registered
    unsafe {
        if libc::pthread_getcpuclockid(thread, &mut clock) != 0 {
            return None;
        }
        let mut ts = libc::timespec { tv_sec: 0, tv_nsec: 0 };
        if libc::clock_gettime(clock, &mut ts) != 0 {
            return None;
        }
        Some(ts.tv_sec as f64 + ts.tv_nsec as f64 * 1e-9)
    }
}

fn watchdog_loop() {
    loop {
        std::thread::sleep(std::time::Duration::from_millis(1000));
        let hung: Option<(String, String, J, String, f64)> = {
            let t = watch_table().lock().unwrap();
            t.1.values().find_map(|w| {
                let used = cpu_seconds_of(w.thread)? - w.cpu_at_start;
                (used > HANG_CPU_SECONDS).then(|| (w.id.clone(), w.sub.clone(), w.case.clone(), w.what.clone(), used))
            })
        };
        if let Some((id, sub, case, what, used)) = hung {
            let Some(cfg) = CURRENT_CFG.get().cloned() else {
                // `nbv replay <file>`: no evidence to write, the file being replayed is the reproduction
                println!("  failing case: {what} has used {used:.0} s of CPU time without finishing (limit {HANG_CPU_SECONDS} s)");
                println!("  signature: hang");
                println!("VIOLATION property={id} replay=(the file being replayed)");
                std::process::exit(1);
            };
            let mut report = Report::new(
                &cfg,
                "run aborted by the hang watchdog: one evaluation consumed more CPU time than allowed without returning; counts of the interrupted run are not available",
            );
            report.violations.push(Violation {
                sub,
                case,
                failure: Failure::new("hang", format!("{what} has used {used:.0} s of CPU time without finishing (limit {HANG_CPU_SECONDS} s)")),
            });
            let code = finish(report, vec![]);
            std::process::exit(code);
        }
    }
}

pub static CURRENT_CFG: std::sync::OnceLock<Cfg> = std::sync::OnceLock::new();

/// Registers the evaluation that the calling thread is about to run; returns a token for
/// `watch_end`.
pub fn watch_begin(id: &str, sub: &str, case: J, what: String) -> u64 {
    let mut t = watch_table().lock().unwrap();
    t.0 += 1;
    let token = t.0;
    // SAFETY: pthread_self has no preconditions
    let thread = unsafe { libc::pthread_self() };
    t.1.insert(
        token,
        Watched {
            id: id.to_string(),
            sub: sub.to_string(),
            case,
            what,
            thread,
            cpu_at_start: thread_cpu_seconds(),
        },
    );
    token
}

pub fn watch_end(token: u64) {
    watch_table().lock().unwrap().1.remove(&token);
}

pub fn install_panic_hook() {
    std::panic::set_hook(Box::new(|info| {
        let loc = info
            .location()
            .map(|l| format!("{}:{}", normalize_path(l.file()), l.line()))
            .unwrap_or_else(|| "unknown".into());
        let msg = if let Some(s) = info.payload().downcast_ref::<&str>() {
            s.to_string()
        } else if let Some(s) = info.payload().downcast_ref::<String>() {
            s.clone()
        } else {
            "<non-string panic>".to_string()
        };
        LAST_PANIC.with(|p| *p.borrow_mut() = Some((loc, msg)));
    }));
}

/// Strip machine-specific prefixes from source paths so signatures are stable.
pub fn normalize_path(p: &str) -> String {
    if let Some(i) = p.find("/repo/") {
        return p[i + 6..].to_string();
    }
    if let Some(i) = p.find("/registry/src/") {
        let rest = &p[i + 14..];
        if let Some(j) = rest.find('/') {
            return rest[j + 1..].to_string();
        }
    }
    if let Some(i) = p.find("/verif/harness/") {
        return format!("harness/{}", &p[i + 15..]);
    }
    p.to_string()
}

pub fn take_panic() -> Option<(String, String)> {
    LAST_PANIC.with(|p| p.borrow_mut().take())
}

/// Runs `f`, converting a panic into `Err((location, message))`.
pub fn catch<T>(f: impl FnOnce() -> T) -> Result<T, (String, String)> {
    let _ = take_panic();
    match std::panic::catch_unwind(std::panic::AssertUnwindSafe(f)) {
        Ok(v) => Ok(v),
        Err(_) => Err(take_panic().unwrap_or(("unknown".into(), "unknown".into()))),
    }
}

// ------------------------------------------------------------------------------------------
// running checks
// ------------------------------------------------------------------------------------------

fn guarded_check<C>(
    id: &str,
    check: &(impl Fn(&C, &mut Stats) -> CheckResult + Sync),
    case: &C,
    stats: &mut Stats,
) -> CheckResult {
    let r = catch(|| check(case, stats));
    let r = match r {
        Ok(r) => r,
        Err((loc, msg)) => Err(Failure::new(
            format!("panic:{loc}"),
            format!("panic at {loc}: {msg}"),
        )),
    };
    match r {
        Ok(()) => Ok(()),
        Err(f) => {
            if let Some(k) = known().matches(id, &f.signature) {
                if !stats.frozen {
                    let e = stats
                        .known_hits
                        .entry(k.key.clone())
                        .or_insert((0, json!({"what": f.what, "detail": f.detail})));
                    e.0 += 1;
                }
                Ok(())
            } else {
                Err(f)
            }
        }
    }
}

/// Sharded proptest run. `cases` is the number of cases *per shard*.
pub fn run_proptest<C, S>(
    cfg: &Cfg,
    sub: &str,
    cases: u32,
    strategy: impl Fn() -> S + Sync,
    to_json: impl Fn(&C) -> J + Sync,
    check: impl Fn(&C, &mut Stats) -> CheckResult + Sync,
) -> RunOutput
where
    S: Strategy<Value = C>,
    C: std::fmt::Debug + Clone,
{
    let stop = AtomicBool::new(false);
    let results: Vec<(Stats, Option<Violation>, Option<String>)> = (0..SHARDS)
        .into_par_iter()
        .map(|shard| {
            let seed = shard_seed(cfg.seed, &cfg.id, sub, shard);
            let config = Config {
                cases,
                failure_persistence: None,
                rng_seed: RngSeed::Fixed(seed),
                max_shrink_iters: 4000,
                max_local_rejects: 1_000_000,
                max_global_rejects: 1_000_000,
                verbose: 0,
                source_file: None,
                test_name: None,
                max_shrink_time: 0,
                ..Config::default()
            };
            let mut runner = TestRunner::new(config);
            let stats = RefCell::new(Stats::default());
            let strat = strategy();
            let result = runner.run(&strat, |case| {
                if stop.load(Ordering::Relaxed) && !stats.borrow().frozen {
                    return Ok(());
                }
                let mut st = stats.borrow_mut();
                match guarded_check(&cfg.id, &check, &case, &mut st) {
                    Ok(()) => Ok(()),
                    Err(f) => {
                        st.frozen = true;
                        stop.store(true, Ordering::Relaxed);
                        Err(TestCaseError::fail(f.what))
                    }
                }
            });
            let mut st = stats.into_inner();
            match result {
                Ok(()) => (st, None, None),
                Err(TestError::Fail(reason, shrunk)) => {
                    // recompute the failure on the shrunk case
                    st.frozen = true;
                    let mut scratch = Stats {
                        frozen: true,
                        ..Stats::default()
                    };
                    let failure = match guarded_check(&cfg.id, &check, &shrunk, &mut scratch) {
                        Err(f) => f,
                        Ok(()) => Failure::new(
                            "flaky",
                            format!(
                                "shrunk case did not fail when re-run (non-deterministic check?); first failure: {}; shrunk case: {}",
                                reason.message().chars().take(400).collect::<String>(),
                                to_json(&shrunk).to_string().chars().take(400).collect::<String>()
                            ),
                        ),
                    };
                    let v = Violation {
                        sub: sub.to_string(),
                        case: to_json(&shrunk),
                        failure,
                    };
                    (st, Some(v), None)
                }
                Err(TestError::Abort(reason)) => {
                    (st, None, Some(format!("{sub}: proptest aborted: {reason}")))
                }
            }
        })
        .collect();
    let mut out = RunOutput {
        stats: Stats::default(),
        violations: vec![],
        infra_errors: vec![],
    };
    for (st, v, e) in results {
        let mut st = st;
        st.frozen = false;
        out.stats.merge(st);
        if let Some(v) = v {
            if v.failure.signature == "flaky" {
                out.infra_errors.push(format!("{sub}: {}", v.failure.what));
            } else if out.violations.is_empty() {
                out.violations.push(v);
            }
        }
        if let Some(e) = e {
            out.infra_errors.push(e);
        }
    }
    out
}

/// Exhaustive enumeration of a finite list of cases, in parallel. All failing cases are found;
/// the one with the lowest index is reported.
pub fn run_enumerated<C: Sync>(
    cfg: &Cfg,
    sub: &str,
    items: &[C],
    to_json: impl Fn(&C) -> J + Sync,
    check: impl Fn(&C, &mut Stats) -> CheckResult + Sync,
) -> RunOutput {
    let chunk = (items.len() / (SHARDS * 8)).max(1);
    let first_fail = AtomicU64::new(u64::MAX);
    let fails: Mutex<Vec<(usize, Failure)>> = Mutex::new(vec![]);
    let stats_all: Vec<Stats> = items
        .par_chunks(chunk)
        .enumerate()
        .map(|(ci, chunk_items)| {
            let mut st = Stats::default();
            for (i, c) in chunk_items.iter().enumerate() {
                let idx = ci * chunk + i;
                if (idx as u64) > first_fail.load(Ordering::Relaxed) {
                    break;
                }
                if let Err(f) = guarded_check(&cfg.id, &check, c, &mut st) {
                    first_fail.fetch_min(idx as u64, Ordering::Relaxed);
                    fails.lock().unwrap().push((idx, f));
                    break;
                }
            }
            st
        })
        .collect();
    let mut out = RunOutput {
        stats: Stats::default(),
        violations: vec![],
        infra_errors: vec![],
    };
    for st in stats_all {
        out.stats.merge(st);
    }
    let mut fails = fails.into_inner().unwrap();
    fails.sort_by_key(|(i, _)| *i);
    if let Some((i, f)) = fails.into_iter().next() {
        out.violations.push(Violation {
            sub: sub.to_string(),
            case: to_json(&items[i]),
            failure: f,
        });
    }
    out
}

/// Draw one value from a strategy with a fixed seed (used for building deterministic sample
/// sets outside of a proptest run).
pub fn sample_strategy<S: Strategy>(s: &S, seed: u64, n: usize) -> Vec<S::Value> {
    let config = Config {
        rng_seed: RngSeed::Fixed(seed),
        failure_persistence: None,
        ..Config::default()
    };
    let mut runner = TestRunner::new(config);
    (0..n)
        .map(|_| s.new_tree(&mut runner).expect("strategy").current())
        .collect()
}

// ------------------------------------------------------------------------------------------
// coverage-guided campaigns (libFuzzer targets in /verif/fuzz), thorough tiers only
// ------------------------------------------------------------------------------------------

/// Builds the libFuzzer target from the current trees of /repo and /verif/harness, runs
/// `SHARDS` independent jobs (`-runs`, `-seed` derived from VERIF_SEED, a fresh corpus seeded
/// with `seeds`) and replays every artifact they leave through `replay` in this process, so
/// that a failure is classified by the same oracle and signature as a proptest failure.
/// libFuzzer campaigns are only approximately reproducible; the saved input is the
/// reproducible unit. Anything that prevents the campaign (no nightly toolchain, build
/// failure) or an artifact that does not reproduce in process is an infrastructure error.
pub fn run_libfuzzer(
    cfg: &Cfg,
    target: &str,
    runs_per_job: u64,
    max_len: usize,
    seeds: &[Vec<u8>],
    dict: &[String],
    replay: impl Fn(&[u8], &mut Stats) -> CheckResult,
) -> RunOutput {
    use std::process::{Command, Stdio};
    let mut out = RunOutput {
        stats: Stats::default(),
        violations: vec![],
        infra_errors: vec![],
    };
    // (VERIF_FUZZ_RUNS shortens a campaign while working on the harness; the registered commands do not set it)
    let runs_per_job = std::env::var("VERIF_FUZZ_RUNS").ok().and_then(|s| s.parse::<u64>().ok()).unwrap_or(runs_per_job);
    let fuzz_dir = PathBuf::from(verif_dir()).join("fuzz");
    let target_dir = fuzz_dir.join("target");
    let build = Command::new("cargo")
        .args(["+nightly", "fuzz", "build", "-s", "none", "--fuzz-dir"])
        .arg(&fuzz_dir)
        .arg("--target-dir")
        .arg(&target_dir)
        .arg(target)
        .current_dir(&fuzz_dir)
        .env("CARGO_NET_OFFLINE", "true")
        .env_remove("CARGO_TARGET_DIR")
        .env_remove("RUSTFLAGS")
        .stdout(Stdio::null())
        .stderr(Stdio::piped())
        .output();
    match build {
        Ok(o) if o.status.success() => {}
        Ok(o) => {
            let err = String::from_utf8_lossy(&o.stderr);
            let tail: String = err.lines().rev().take(12).collect::<Vec<_>>().into_iter().rev().collect::<Vec<_>>().join("\n");
            out.infra_errors.push(format!("cargo fuzz build {target} failed:\n{tail}"));
            return out;
        }
        Err(e) => {
            out.infra_errors.push(format!("cannot run cargo fuzz: {e}"));
            return out;
        }
    }
    let bin = target_dir.join("x86_64-unknown-linux-gnu").join("release").join(target);
    let work = fuzz_dir.join("work").join(format!("{target}-{}-seed{}", cfg.id, cfg.seed));
    let _ = std::fs::remove_dir_all(&work);
    let dict_path = work.join("dict.txt");
    if std::fs::create_dir_all(&work).is_err() {
        out.infra_errors.push(format!("cannot create {}", work.display()));
        return out;
    }
    if !dict.is_empty() {
        let mut text = String::new();
        for d in dict {
            let esc: String = d.bytes().map(|b| format!("\\x{b:02x}")).collect();
            text.push_str(&format!("\"{esc}\"\n"));
        }
        let _ = std::fs::write(&dict_path, text);
    }
    let mut children = vec![];
    for job in 0..SHARDS {
        let corpus = work.join(format!("corpus{job}"));
        let art = work.join(format!("art{job}"));
        let _ = std::fs::create_dir_all(&corpus);
        let _ = std::fs::create_dir_all(&art);
        for (i, s) in seeds.iter().enumerate() {
            let _ = std::fs::write(corpus.join(format!("seed{i:04}")), s);
        }
        // libFuzzer treats -seed=0 as "random": keep the value non-zero
        let seed = (shard_seed(cfg.seed, &cfg.id, target, job) % 0xffff_fffe) + 1;
        let log = std::fs::File::create(work.join(format!("log{job}.txt")));
        let Ok(log) = log else { continue };
        let mut c = Command::new(&bin);
        c.arg(&corpus)
            .arg(format!("-runs={runs_per_job}"))
            .arg(format!("-seed={seed}"))
            .arg(format!("-max_len={max_len}"))
            .arg("-len_control=0")
            .arg("-timeout=120")
            .arg("-rss_limit_mb=6144")
            .arg("-print_final_stats=1")
            .arg(format!("-artifact_prefix={}/", art.display()))
            .env("VERIF_ROOT", verif_dir())
            .stdout(Stdio::null())
            .stderr(Stdio::from(log));
        if !dict.is_empty() {
            c.arg(format!("-dict={}", dict_path.display()));
        }
        match c.spawn() {
            Ok(ch) => children.push((job, ch)),
            Err(e) => out.infra_errors.push(format!("cannot start {}: {e}", bin.display())),
        }
    }
    let mut executed = 0u64;
    let mut corpus_files = 0usize;
    for (job, mut ch) in children {
        let _ = ch.wait();
        let log = std::fs::read_to_string(work.join(format!("log{job}.txt"))).unwrap_or_default();
        for l in log.lines() {
            if let Some(n) = l.strip_prefix("stat::number_of_executed_units:") {
                executed += n.trim().parse::<u64>().unwrap_or(0);
            }
        }
        corpus_files += std::fs::read_dir(work.join(format!("corpus{job}"))).map(|d| d.count()).unwrap_or(0);
        let mut arts: Vec<PathBuf> = std::fs::read_dir(work.join(format!("art{job}")))
            .map(|d| d.filter_map(|e| e.ok().map(|e| e.path())).collect())
            .unwrap_or_default();
        arts.sort();
        for a in arts {
            let name = a.file_name().and_then(|n| n.to_str()).unwrap_or("").to_string();
            let Ok(bytes) = std::fs::read(&a) else { continue };
            if name.starts_with("oom-") {
                out.infra_errors.push(format!("libFuzzer reported memory exhaustion for {} (not replayed in process)", a.display()));
                continue;
            }
            // `slow-unit-*` files are libFuzzer's notes about inputs that took more than 10 s of
            // wall-clock time (frequent when 16 jobs share a loaded machine), not failures: they are
            // replayed like every artifact — the in-process oracle judges hangs by CPU time — but a
            // replay that passes is the expected outcome for them
            let note_only = name.starts_with("slow-unit-");
            match catch(|| replay(&bytes, &mut out.stats)) {
                Ok(Ok(())) if note_only => out.stats.label("libfuzzer:slow-unit-note-replayed-ok"),
                Ok(Ok(())) => out
                    .infra_errors
                    .push(format!("libFuzzer artifact {} does not fail when replayed in process", a.display())),
                Ok(Err(f)) => {
                    if let Some(k) = known().matches(&cfg.id, &f.signature) {
                        let e = out
                            .stats
                            .known_hits
                            .entry(k.key.clone())
                            .or_insert((0, json!({"fuzz_bytes": bytes, "text": String::from_utf8_lossy(&bytes)})));
                        e.0 += 1;
                    } else if !out.violations.iter().any(|v| v.failure.signature == f.signature) {
                        out.violations.push(Violation {
                            sub: format!("libfuzzer-{target}"),
                            case: json!({"fuzz_bytes": bytes, "text": String::from_utf8_lossy(&bytes)}),
                            failure: f,
                        });
                    }
                }
                Err((loc, msg)) => out.infra_errors.push(format!("replaying {} panicked in the harness at {loc}: {msg}", a.display())),
            }
        }
    }
    out.stats.label_n(&format!("libfuzzer:{target}:executions"), executed);
    out.stats.label_n(&format!("libfuzzer:{target}:corpus-files-at-end"), corpus_files as u64);
    out.stats.evaluations += executed;
    // keep the disk clean: the corpora are reproducible from the seed inputs
    if out.violations.is_empty() && out.infra_errors.is_empty() {
        let _ = std::fs::remove_dir_all(&work);
    }
    out
}

// ------------------------------------------------------------------------------------------
// replay files
// ------------------------------------------------------------------------------------------

pub fn replay_dir(id: &str) -> PathBuf {
    PathBuf::from(format!("{}/replays/{id}", verif_dir()))
}

pub fn write_replay(id: &str, v: &Violation) -> PathBuf {
    let dir = replay_dir(id);
    let _ = std::fs::create_dir_all(&dir);
    let body = json!({
        "property": id,
        "sub": v.sub,
        "case": v.case,
        "failure": {"what": v.failure.what, "signature": v.failure.signature, "detail": v.failure.detail},
    });
    let text = serde_json::to_string_pretty(&body).unwrap();
    let h = hash_str(&format!("{}{}", v.sub, v.case));
    let path = dir.join(format!("fail-{h:016x}.json"));
    let _ = std::fs::write(&path, text);
    path
}

/// All committed replay inputs for a property: (path, sub, case, is_known_example)
pub fn load_replays(id: &str) -> Vec<(PathBuf, String, J, bool)> {
    let mut out = vec![];
    let dir = replay_dir(id);
    let mut paths: Vec<PathBuf> = match std::fs::read_dir(&dir) {
        Ok(rd) => rd.filter_map(|e| e.ok().map(|e| e.path())).collect(),
        Err(_) => vec![],
    };
    paths.sort();
    for p in paths {
        if p.extension().and_then(|e| e.to_str()) != Some("json") {
            continue;
        }
        let Ok(text) = std::fs::read_to_string(&p) else {
            continue;
        };
        let Ok(v) = serde_json::from_str::<J>(&text) else {
            continue;
        };
        let name = p.file_name().unwrap().to_string_lossy().to_string();
        out.push((
            p.clone(),
            v["sub"].as_str().unwrap_or("").to_string(),
            v["case"].clone(),
            name.starts_with("known-"),
        ));
    }
    out
}

// ------------------------------------------------------------------------------------------
// finishing: evidence + output lines + exit code
// ------------------------------------------------------------------------------------------

pub fn finish(mut report: Report, known_lines: Vec<String>) -> i32 {
    let id = report.cfg.id.clone();
    let wall = report.started.elapsed().as_secs_f64();

    let mut replay_paths = vec![];
    for v in &report.violations {
        let p = write_replay(&id, v);
        replay_paths.push(p);
    }

    // evidence
    let mut samples = report.stats.nontrivial_samples.clone();
    for s in &report.stats.samples {
        if samples.len() < MAX_SAMPLES {
            samples.push(s.clone());
        }
    }
    let mut coverage = serde_json::Map::new();
    coverage.insert("evaluations".into(), json!(report.stats.evaluations));
    coverage.insert(
        "distinct_nontrivial".into(),
        json!(report.stats.nontrivial.len()),
    );
    coverage.insert("rule".into(), json!(report.rule));
    coverage.insert("samples".into(), J::Array(samples));
    if let Some(e) = report.exhaustive {
        coverage.insert("exhaustive".into(), json!(e));
    }
    coverage.insert("classes".into(), json!(report.stats.labels));
    coverage.insert(
        "excluded_by_construction".into(),
        json!(report.stats.excluded),
    );
    let known_hits: BTreeMap<String, J> = report
        .stats
        .known_hits
        .iter()
        .map(|(k, (n, ex))| (k.clone(), json!({"count": n, "example": ex})))
        .collect();
    coverage.insert("known_findings_observed".into(), json!(known_hits));
    coverage.insert("known_finding_lines".into(), json!(known_lines));
    for (k, v) in std::mem::take(&mut report.extra) {
        coverage.insert(k, v);
    }
    if !report.infra_errors.is_empty() {
        coverage.insert("infrastructure_errors".into(), json!(report.infra_errors));
    }
    let evidence = json!({
        "property_id": id,
        "tier": report.cfg.tier.name(),
        "seed": report.cfg.seed,
        "level": "exploration",
        "coverage": J::Object(coverage),
        "assumptions": report.assumptions,
        "wall_s": (wall * 1000.0).round() / 1000.0,
        "violations": report.violations.len(),
    });
    let _ = std::fs::create_dir_all(format!("{}/evidence", verif_dir()));
    let path = format!("{}/evidence/{id}.json", verif_dir());
    if let Err(e) = std::fs::write(&path, serde_json::to_string_pretty(&evidence).unwrap()) {
        eprintln!("cannot write evidence {path}: {e}");
        return 2;
    }

    for l in &known_lines {
        println!("KNOWN-FINDING: property={id} {l}");
    }
    println!(
        "[{id}] tier={} seed={} evaluations={} distinct_nontrivial={} excluded={} wall={:.1}s",
        report.cfg.tier.name(),
        report.cfg.seed,
        report.stats.evaluations,
        report.stats.nontrivial.len(),
        report.stats.excluded,
        wall
    );
    if !report.violations.is_empty() {
        for (v, p) in report.violations.iter().zip(replay_paths.iter()) {
            println!("  failing case ({}): {}", v.sub, v.failure.what);
            println!("  signature: {}", v.failure.signature);
            println!("VIOLATION property={id} replay={}", p.display());
        }
        return 1;
    }
    if !report.infra_errors.is_empty() {
        for e in &report.infra_errors {
            eprintln!("INFRA: {e}");
        }
        return 2;
    }
    if report.stats.evaluations == 0 || report.stats.nontrivial.len() < 2 {
        eprintln!("INFRA: check explored nothing non-trivial");
        return 2;
    }
    println!("[{id}] OK");
    0
}

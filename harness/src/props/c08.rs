//! C08 — no input crashes or hangs the interpreter.

use super::sessgen::*;
use crate::engine::*;
use crate::gen_util::*;
use crate::session::*;
use crate::PropDef;
use numbat::resolver::CodeSource;
use proptest::prelude::*;
use serde::{Deserialize, Serialize};
use serde_json::{Value as J, json};
use std::sync::OnceLock;

pub fn def() -> PropDef {
    PropDef {
        id: "C08",
        run,
        replay,
    }
}

/// Token vocabulary for the soup generator.
const VOCAB: &[&str] = &[
    "1", "2", "0", "3.5", "1e30", "1e308", "2^126", "0x1F", "0b101", "0o17", "1_000", ".5", "1.", "1e-320", "NaN", "inf", "9007199254740993",
    "m", "s", "kg", "km", "cm", "h", "day", "mile", "gallon", "mpg", "%", "°", "byte", "bit", "rad", "deg", "K", "J", "W", "N", "Hz",
    "+", "-", "*", "/", "^", "**", "·", "×", "÷", "per", "->", "→", "to", "|>", "<", ">", "<=", ">=", "==", "!=", "≠", "≤", "≥", "&&", "||", "!", "²", "³", "⁻¹", "⁻²",
    "(", ")", "[", "]", "{", "}", ",", ":", ".", "=", "\"", "\"abc\"", "\"a{1+1}b\"", "\"{\"", "?", ";", "\n", "#", "@", "::", "_", "ans",
    "let", "fn", "if", "then", "else", "true", "false", "unit", "dimension", "struct", "use", "print", "assert", "assert_eq", "type", "where", "and",
    "x", "y", "f", "foo", "sqrt", "sin", "len", "head", "tail", "map", "sum", "cons", "mean", "abs", "floor_in", "unit_of", "value_of", "str_length", "error", "now", "datetime", "format_datetime", "tz", "element", "random", "mod", "gamma", "factorial", "gcd", "sqr", "cbrt", "log", "ln", "exp",
    "Length", "Time", "Scalar", "Bool", "String", "List", "Fn", "D", "Dim", "Mass", "x: Length", "-> Scalar", "<D: Dim>",
    "prelude", "units::si", "core::lists", "extra::algebra",
];

const EXTREME_TEMPLATES: &[&str] = &[
    "((m/cm)^A)^B",
    "fn f(x) = x^(A) * x^(B)\nf(2 m)",
    "let q = 2 m^(A)",
    "(3 m)^(A/B)",
    "2^A^B",
    "A!",
    "(A)!!!",
    "gamma(A)",
    "A % B",
    "mod(A, B)",
    "1 m -> A cm",
    "A km + B mm",
    "A * B * A * B",
    "range(0, 3) |> map(sqr) |> sum |> sqrt |> (A)",
    "10^A m",
    "A^-B s",
    "let v: Length^A = 1",
    "dimension Q = Length^A\nunit q: Q",
    "unit u = A m\n3 u -> m",
    "datetime(\"2000-01-01 00:00:00 UTC\") + A s",
    "from_unixtime(A unix_s)",
    "calendar_add(now(), A years)",
    "format_datetime(\"%A\", now())",
    "str_slice(A, B, \"hello\")",
    "chr(A)",
    "hex(A)",
    "random_uniform(A, B)",
    "element_at(A, [1, 2, 3])",
    "take(A, range(1, 5))",
    "round_in(A m, B cm)",
    "A m |> floor_in(B cm)",
    "quantity_cast(A m, s)",
    "tamagotchi",
    "1 m³²",
    "sqrt(A m^B)",
    "atan2(A m, B cm)",
    "[A, B] |> maximum",
    "\"{A:B}\"",
    "\"{A:>B}\"",
    "\"{A:.Bf}\"",
    "A m\nfn f() = ans\n\"str\"\nf() + 1 m",
    "A\nfn g(x) = x * _\ntrue\ng(B)",
    "B s\nlet k = ans\nfn h() = k + ans\n[1]\nh()",
    "(2 m)^(0^A)",
    "(2 m)^(A^-1)",
    "(3 s)^((B - B)^A)",
    "(2 m)^(A^(B))",
    "fn f(x: Length) = x^(0^A)\nf(2 m)",
    "unit foo = meter^((1 - 1)^(A))",
    "dimension Q = Length^(A^B)",
    "fn wf(x: Scalar) = y where y = A m and m = x\nwf(B)",
    "fn wf(x) = x * s where s = A s\nwf(B)",
    "fn wf(x: Scalar) = y + g where y = g and g = x * A g\nwf(B)",
    "fn tf<T>(x: T) -> T = x + x\ntf(\"a\")\ntf(A)",
    "fn tf<T>(x: T) = x * A\ntf(true)",
    "fn tf<T, U>(x: T, y: U) = -x / y\ntf([B], A)",
    "assert_eq(1, 2, A)",
    "assert_eq(B m, 2 m, A cm)",
    "assert_eq(A, B, 1e-200)",
    "assert_eq(3 m, 3.5 m, 2.5e-200 m)",
    "assert_eq([A], [B])\nassert_eq(\"A\", \"B\")",
    "assert(A < B)\nassert_eq(A m, B m)",
    "\"{?}\"",
    "\"a {[?, A]} b {B:.2f}\"",
    "print(\"{? + A m}\")",
    "fn hf(x) = \"{x} {?}\"\nhf(B)",
    "struct HS { a: Scalar }\nHS { a: ? }.a + [?]",
    "if ? then A else ?",
    "unit uq = \"A\"\n2 uq",
    "unit uq = A > B",
    "unit uq = [A m]\nuq",
    "unit uq = sin\nuq(B)",
    "@metric_prefixes\nunit uq = now()\n2 kilouq",
    "fn now() -> DateTime\nnow() - now()",
    "fn datetime(input: String) -> DateTime\ndatetime(\"2000-01-01 00:00:00 UTC\") - datetime(\"2001-01-01 00:00:00 UTC\")",
];

const EXTREME_VALUES: &[&str] = &[
    "1e30", "1e308", "1e-320", "2^126", "2^127", "2^63", "(2^63 - 1)", "9223372036854775807", "18446744073709551616", "65536", "65535", "4294967296",
    "0", "-1", "1/3", "0.1+0.2", "1e3", "170", "171", "NaN", "inf", "-inf", "0.5", "1e18", "9007199254740993", "1e-9", "3", "12", "100000", "2^31", "1/0", "(1/3)^-1", "1e999", "1e-400",
];

fn corpus() -> &'static Vec<String> {
    static C: OnceLock<Vec<String>> = OnceLock::new();
    C.get_or_init(|| {
        let mut files = vec![];
        fn walk(dir: &std::path::Path, out: &mut Vec<std::path::PathBuf>) {
            if let Ok(rd) = std::fs::read_dir(dir) {
                let mut entries: Vec<_> = rd.filter_map(|e| e.ok().map(|e| e.path())).collect();
                entries.sort();
                for p in entries {
                    if p.is_dir() {
                        walk(&p, out);
                    } else if p.extension().and_then(|e| e.to_str()) == Some("nbt") {
                        out.push(p);
                    }
                }
            }
        }
        walk(std::path::Path::new("/repo/examples"), &mut files);
        walk(std::path::Path::new("/repo/numbat/modules"), &mut files);
        let mut lines = vec![];
        for f in files {
            if let Ok(text) = std::fs::read_to_string(&f) {
                for l in text.lines() {
                    let t = l.trim();
                    if !t.is_empty() && !t.starts_with('#') && t.len() < 300 {
                        lines.push(l.to_string());
                    }
                }
            }
        }
        if lines.is_empty() {
            lines.push("1 + 1".to_string());
        }
        lines
    })
}

/// Character alphabet for the character-level generator: every non-alphanumeric character
/// that occurs in numbat's tokenizer and parser sources (operators in all spellings, quotes,
/// superscripts, …), the complete Unicode superscript/subscript block and its Latin-1
/// members, and a few letters and digits to attach them to.
fn alphabet() -> &'static Vec<char> {
    static A: OnceLock<Vec<char>> = OnceLock::new();
    A.get_or_init(|| {
        let mut set = std::collections::BTreeSet::new();
        for f in ["/repo/numbat/src/tokenizer.rs", "/repo/numbat/src/parser.rs"] {
            if let Ok(text) = std::fs::read_to_string(f) {
                for ch in text.chars() {
                    if !ch.is_ascii_alphanumeric() && !ch.is_control() {
                        set.insert(ch);
                    }
                }
            }
        }
        for cp in (0x2070u32..=0x209F).chain([0xB2, 0xB3, 0xB9, 0x2212, 0x22C5, 0xB7, 0xD7, 0xF7, 0x3C0, 0xB5, 0x3BC, 0x2126, 0xB0, 0x2032, 0x2033]) {
            if let Some(ch) = char::from_u32(cp) {
                set.insert(ch);
            }
        }
        for ch in "mskx219e_. \n".chars() {
            set.insert(ch);
        }
        set.into_iter().collect()
    })
}

const CHAR_PREFIXES: &[&str] = &["", "m", "2 m", "2", "x = 3 m", "let q = s", "dimension Q = Length", "unit u: Length", "fn f(x: Length", "\"a", "1e", "2^", "m^", "km/s"];

/// Every public function of the prelude with its parameter types (read from the session, so
/// new library functions are covered without touching the harness). Random-number functions
/// are left out: a failure must replay from the saved input.
fn library_functions() -> &'static Vec<(String, Vec<String>)> {
    static F: OnceLock<Vec<(String, Vec<String>)>> = OnceLock::new();
    F.get_or_init(|| {
        let ctx = prelude();
        let mut out: Vec<(String, Vec<String>)> = ctx
            .functions()
            .filter(|f| !f.fn_name.starts_with("rand") && f.fn_name != "exit")
            .map(|f| {
                let sig = f.signature_str.to_string();
                // parameter list: the text between the first '(' after the name and its match
                let mut params = vec![];
                if let Some(open) = sig.find('(') {
                    let mut depth = 0i32;
                    let mut cur = String::new();
                    let mut prev = ' ';
                    for ch in sig[open..].chars() {
                        let arrow = prev == '-' && ch == '>';
                        prev = ch;
                        if arrow {
                            cur.push(ch);
                            continue;
                        }
                        match ch {
                            '(' | '[' | '<' => {
                                depth += 1;
                                if depth > 1 {
                                    cur.push(ch);
                                }
                            }
                            ')' | ']' | '>' => {
                                depth -= 1;
                                if depth == 0 {
                                    break;
                                }
                                cur.push(ch);
                            }
                            ',' if depth == 1 => params.push(std::mem::take(&mut cur)),
                            _ => cur.push(ch),
                        }
                    }
                    if !cur.trim().is_empty() {
                        params.push(cur);
                    }
                }
                let types = params.iter().map(|p| p.split_once(':').map(|(_, t)| t.trim().to_string()).unwrap_or_default()).collect();
                (f.fn_name.to_string(), types)
            })
            .collect();
        out.sort();
        out
    })
}

const ARG_STRINGS: &[&str] = &["\"\"", "\"a\"", "\"hello world\"", "\"é\"", "\"äb\"", "\"a–b–c\"", "\"日本語\"", "\"🙂x\"", "\"–\"", "\"b\"", "\"{{}}\"", "\"%Y-%m-%d\"", "\"UTC\"", "\"Europe/Berlin\"", "\"2000-01-01 00:00:00 UTC\""];
const ARG_NUMBERS: &[&str] = &["0", "1", "2", "-1", "3", "0.5", "-2.5", "1/3", "7", "100", "1e6", "1e30", "1e308", "-1e308", "1e-320", "NaN", "inf", "-inf", "2^53", "2^63", "65536", "3 m", "-2 m", "0 m", "5 cm", "2 s", "1.5 kg", "90 deg", "45°", "300 K", "1 unix_s", "NaN cm", "inf s", "2 m^2"];
const ARG_LISTS: &[&str] = &["[]", "[1]", "[1, 2, 3]", "[3, 1, 2, 1]", "[1 m, 2 cm]", "[\"a\", \"é\"]", "[[1], []]", "[NaN, 1]", "[0]", "[true, false]", "[2 s, 1 min]", "range(1, 5)", "[1e308, 1e308]"];
const ARG_FNS: &[&str] = &["sqr", "sqrt", "str_length", "abs", "id", "sin", "len", "is_nan", "floor"];
const ARG_DATES: &[&str] = &["datetime(\"2000-01-01 00:00:00 UTC\")", "datetime(\"1969-12-31 23:59:59.5 UTC\")", "datetime(\"9999-12-31 23:59:59 UTC\")", "datetime(\"-009999-01-01 00:00:00 UTC\")", "date(\"2024-02-29\")"];

fn library_call(f: u16, args: &[u16]) -> String {
    let fs = library_functions();
    if fs.is_empty() {
        return "1".into();
    }
    let (name, types) = &fs[pick_idx(f, fs.len())];
    let mut rendered = vec![];
    for (i, t) in types.iter().enumerate() {
        let a = args.get(i).copied().unwrap_or(0x5555);
        // one argument in eight ignores the declared type
        let pool: &[&str] = if a % 8 == 7 {
            [ARG_STRINGS, ARG_NUMBERS, ARG_LISTS][(a as usize / 8) % 3]
        } else if t.starts_with("String") {
            ARG_STRINGS
        } else if t.starts_with("List") {
            ARG_LISTS
        } else if t.starts_with("Fn") {
            ARG_FNS
        } else if t.starts_with("DateTime") {
            ARG_DATES
        } else if t.starts_with("Bool") {
            &["true", "false"]
        } else {
            ARG_NUMBERS
        };
        rendered.push(pool[pick_idx(a, pool.len())].to_string());
    }
    format!("{name}({})", rendered.join(", "))
}

#[derive(Clone, Debug, Serialize, Deserialize)]
enum G {
    LibCall { f: u16, args: Vec<u16> },
    Chars { prefix: u16, chars: Vec<u16> },
    Soup { tokens: Vec<u16>, glue: u32 },
    Mutate { start: u16, len: u8, ops: Vec<(u8, u16, u16)> },
    Extreme { template: u16, a: u16, b: u16 },
    Program { ins: Vec<Ins>, corrupt: Vec<(u8, u16, u16)> },
    Nest { kind: u8, depth: u8 },
    Bytes(Vec<u8>),
}

fn g_strategy() -> impl Strategy<Value = G> {
    prop_oneof![
        6 => (idx(), proptest::collection::vec(idx(), 4)).prop_map(|(f, args)| G::LibCall { f, args }),
        4 => (idx(), proptest::collection::vec(idx(), 1..5)).prop_map(|(prefix, chars)| G::Chars { prefix, chars }),
        5 => (proptest::collection::vec(idx(), 1..28), any::<u32>()).prop_map(|(tokens, glue)| G::Soup { tokens, glue }),
        5 => (idx(), 1u8..6, proptest::collection::vec((0u8..6, idx(), idx()), 1..4)).prop_map(|(start, len, ops)| G::Mutate { start, len, ops }),
        4 => (idx(), idx(), idx()).prop_map(|(template, a, b)| G::Extreme { template, a, b }),
        3 => (proptest::collection::vec(ins_strategy(), 1..6), proptest::collection::vec((0u8..6, idx(), idx()), 0..3))
            .prop_map(|(ins, corrupt)| G::Program { ins, corrupt }),
        1 => (0u8..8, 1u8..60).prop_map(|(kind, depth)| G::Nest { kind, depth }),
        1 => proptest::collection::vec(any::<u8>(), 1..40).prop_map(G::Bytes),
    ]
}

fn tokenize_rough(s: &str) -> Vec<String> {
    // split into words / single symbols, keeping whitespace as tokens
    let mut out = vec![];
    let mut cur = String::new();
    for ch in s.chars() {
        if ch.is_alphanumeric() || ch == '_' || ch == '.' {
            cur.push(ch);
        } else {
            if !cur.is_empty() {
                out.push(std::mem::take(&mut cur));
            }
            out.push(ch.to_string());
        }
    }
    if !cur.is_empty() {
        out.push(cur);
    }
    out
}

fn mutate(text: &str, ops: &[(u8, u16, u16)]) -> String {
    let mut toks = tokenize_rough(text);
    for (kind, a, b) in ops {
        if toks.is_empty() {
            break;
        }
        let i = pick_idx(*a, toks.len());
        let j = pick_idx(*b, toks.len());
        match kind % 6 {
            0 => {
                toks.remove(i);
            }
            1 => {
                let t = toks[i].clone();
                toks.insert(i, t);
            }
            2 => toks.swap(i, j),
            3 => toks[i] = EXTREME_VALUES[pick_idx(*b, EXTREME_VALUES.len())].to_string(),
            4 => toks[i] = VOCAB[pick_idx(*b, VOCAB.len())].to_string(),
            _ => {
                let t = toks[j].clone();
                toks.insert(i, t);
            }
        }
    }
    toks.concat()
}

fn build(g: &G) -> (String, &'static str) {
    match g {
        G::LibCall { f, args } => (library_call(*f, args), "library-call"),
        G::Chars { prefix, chars } => {
            let a = alphabet();
            let mut s = CHAR_PREFIXES[pick_idx(*prefix, CHAR_PREFIXES.len())].to_string();
            for c in chars {
                s.push(a[pick_idx(*c, a.len())]);
            }
            (s, "characters")
        }
        G::Soup { tokens, glue } => {
            let mut s = String::new();
            for (i, t) in tokens.iter().enumerate() {
                if i > 0 && (glue >> (i % 32)) & 1 == 0 {
                    s.push(' ');
                }
                s.push_str(VOCAB[pick_idx(*t, VOCAB.len())]);
            }
            (s, "soup")
        }
        G::Mutate { start, len, ops } => {
            let c = corpus();
            let st = pick_idx(*start, c.len());
            let end = (st + *len as usize).min(c.len());
            (mutate(&c[st..end].join("\n"), ops), "corpus-mutation")
        }
        G::Extreme { template, a, b } => {
            let t = EXTREME_TEMPLATES[pick_idx(*template, EXTREME_TEMPLATES.len())];
            let a = EXTREME_VALUES[pick_idx(*a, EXTREME_VALUES.len())];
            let b = EXTREME_VALUES[pick_idx(*b, EXTREME_VALUES.len())];
            (t.replace('A', a).replace('B', b), "extreme")
        }
        G::Program { ins, corrupt } => {
            let mut env = Env::default();
            let text: Vec<String> = ins.iter().map(|i| render_ins(i, &mut env)).collect();
            (mutate(&text.join("\n"), corrupt), "generated-program")
        }
        G::Nest { kind, depth } => {
            let d = *depth as usize;
            let s = match kind % 8 {
                // very long inputs: tens of thousands of list elements / statements (the VM
                // addresses constants and jump targets with 16 bits)
                6 => format!("[{}]", vec!["1"; d * 1200].join(", ")),
                7 => format!("{}if true then 1 else 2", "1\n".repeat(d * 400)),
                0 => format!("{}1{}", "(".repeat(d), ")".repeat(d)),
                1 => format!("{}1{}", "[".repeat(d), "]".repeat(d)),
                2 => format!("1{}", "!".repeat(d * 10)),
                3 => format!("{}1", "-".repeat(d * 5)),
                4 => (0..d).map(|_| "if true then 1 else ").collect::<String>() + "2",
                _ => format!("1{}", " + 1".repeat(d * 20)),
            };
            (s, "nesting")
        }
        G::Bytes(b) => (String::from_utf8_lossy(b).to_string(), "bytes"),
    }
}

/// Signature of a panic without line numbers (they shift with every edit of the file):
/// file + message with digits squashed.
/// Does the text contain one of the literals 0, NaN, inf directly followed by a unit? Such a
/// literal is dimension-polymorphic (recorded under C01), so it type-checks where a Scalar or
/// another dimension is required and the run-time unit is then incompatible.
fn has_polymorphic_literal_with_unit(text: &str) -> bool {
    let b: Vec<char> = text.chars().collect();
    let is_word = |c: char| c.is_alphanumeric() || c == '_' || c == '.';
    for lit in ["NaN", "inf", "0"] {
        let l: Vec<char> = lit.chars().collect();
        let mut i = 0;
        while i + l.len() <= b.len() {
            if b[i..i + l.len()] == l[..] && (i == 0 || !is_word(b[i - 1])) {
                let mut j = i + l.len();
                while j < b.len() && b[j] == ' ' {
                    j += 1;
                }
                if j < b.len() && (b[j].is_alphabetic() || b[j] == '°') && (j > i + l.len() || lit == "0") {
                    return true;
                }
                // a bare 0 / NaN / inf is polymorphic as well: `atan2(0, 5 cm)` is accepted and
                // then converts 5 cm to the (empty) unit of the literal
                if i + l.len() == b.len() || !is_word(b[i + l.len()]) {
                    return true;
                }
            }
            i += 1;
        }
    }
    // numeric literals whose value is 0 or overflows to infinity (`0.000`, `0x0`, `1e-999`,
    // `1e999`) are polymorphic in the same way
    let mut i = 0;
    while i < b.len() {
        let starts = (b[i].is_ascii_digit() || (b[i] == '.' && i + 1 < b.len() && b[i + 1].is_ascii_digit())) && (i == 0 || !is_word(b[i - 1]));
        if !starts {
            i += 1;
            continue;
        }
        let mut j = i;
        while j < b.len() && (b[j].is_ascii_alphanumeric() || b[j] == '_' || b[j] == '.' || ((b[j] == '+' || b[j] == '-') && j > i && (b[j - 1] == 'e' || b[j - 1] == 'E'))) {
            j += 1;
        }
        let tok: String = b[i..j].iter().filter(|c| **c != '_').collect();
        let lower = tok.to_ascii_lowercase();
        let zero_or_inf = if let Some(d) = lower.strip_prefix("0x").or(lower.strip_prefix("0o")).or(lower.strip_prefix("0b")) {
            !d.is_empty() && d.chars().all(|c| c == '0')
        } else {
            // the longest prefix that is a decimal literal (`2m` is `2` followed by a unit)
            (1..=tok.len()).rev().filter(|k| tok.is_char_boundary(*k)).find_map(|k| tok[..k].parse::<f64>().ok()).map(|v| v == 0.0 || v.is_infinite()).unwrap_or(false)
        };
        if zero_or_inf {
            return true;
        }
        i = j.max(i + 1);
    }
    false
}

/// Does a function definition in the text mention `ans` or `_` in its body? The body is
/// type-checked against the type `ans` had when the function was defined but reads the
/// session's current last result when it is called (recorded finding).
fn function_body_mentions_ans(text: &str) -> bool {
    text.lines().any(|l| {
        let l = l.trim_start();
        if !l.starts_with("fn ") {
            return false;
        }
        let Some((_, body)) = l.split_once('=') else { return false };
        let mut word = String::new();
        for ch in body.chars().chain(" ".chars()) {
            if ch.is_alphanumeric() || ch == '_' {
                word.push(ch);
            } else {
                if word == "ans" || word == "_" {
                    return true;
                }
                word.clear();
            }
        }
        false
    })
}

/// Does the text define a function with a type parameter that has no `: Dim` bound?
fn has_unbounded_type_parameter(text: &str) -> bool {
    let mut rest = text;
    while let Some(i) = rest.find("fn ") {
        rest = &rest[i + 3..];
        let head: &str = rest.split(['(', '\n', '=']).next().unwrap_or("");
        if let (Some(a), Some(b)) = (head.find('<'), head.rfind('>')) {
            if a < b && head[a + 1..b].split(',').any(|p| !p.trim().is_empty() && !p.contains(':')) {
                return true;
            }
        }
    }
    false
}

fn panic_signature(text: &str, loc: &str, msg: &str) -> String {
    let file = loc.rsplit_once(':').map(|(f, _)| f).unwrap_or(loc);
    if file.ends_with("vm.rs") && text.len() > 30_000 && text.contains("if ") && !msg.contains("constants.len()") {
        // jump targets are 16-bit offsets into the ever-growing <main> chunk: beyond 65535 bytes
        // of bytecode a conditional jumps to the wrong place and the VM trips over whatever it
        // finds there (several different messages, one cause)
        return "panic:bytecode-offsets-beyond-16-bits".to_string();
    }
    if file.ends_with("bytecode_interpreter.rs") && msg.contains("Option::unwrap()") && text.contains("DateTime") && text.contains(" - ") {
        // a DateTime difference compiled in a session that has no unit `second` (no prelude)
        return "panic:datetime-difference-without-unit-second".to_string();
    }
    if file.ends_with("vm.rs") && msg.starts_with("Expected ") && function_body_mentions_ans(text) {
        return "panic:ans-in-function-body:value of another type on the VM stack".to_string();
    }
    if file.ends_with("vm.rs") && msg.starts_with("Expected quantity") && has_unbounded_type_parameter(text) {
        // `fn f<T>(x: T) = x + x`: arithmetic on a parameter whose type is a bare type parameter
        // without `: Dim` is accepted, and so is a call with a string, boolean or list
        return "panic:unbounded-type-parameter-in-arithmetic:non-quantity on the VM stack".to_string();
    }
    if msg.contains("IncompatibleUnits(") && has_polymorphic_literal_with_unit(text) {
        // one root cause, many unwrap sites (library functions and VM operations that rely on
        // the checker having established a Scalar or a matching dimension)
        return "panic:polymorphic-literal:IncompatibleUnits".to_string();
    }
    if file.starts_with("num-rational") && msg.starts_with("attempt to") && msg.contains("overflow") {
        // one root cause (unchecked i128 exponent arithmetic), whatever the operation
        return "panic:num-rational:arithmetic overflow in exponent arithmetic".to_string();
    }
    let mut m: String = msg.chars().take(70).map(|c| if c.is_ascii_digit() { '#' } else { c }).collect();
    while m.contains("##") {
        m = m.replace("##", "#");
    }
    format!("panic:{file}:{m}")
}

/// VM instructions one C08 input may execute. One instruction on quantities with units costs up
/// to ~2.5 µs (conversions), so this bounds an input that is stopped by the budget to about
/// 10 s of CPU time, well below the hang thresholds (20 s for returning evaluations, 90 s for
/// the watchdog).
const C08_STEP_BUDGET: u64 = 3_000_000;

fn check_input(text: &str, kind: &str, session: u8, st: &mut Stats) -> CheckResult {
    set_thread_step_budget(Some(C08_STEP_BUDGET));
    let r = check_input_inner(text, kind, session, st);
    set_thread_step_budget(None);
    r
}

fn check_input_inner(text: &str, kind: &str, session: u8, st: &mut Stats) -> CheckResult {
    st.eval();
    let (mut ctx, sess) = match session % 3 {
        0 => (fresh_context(), "fresh"),
        1 => (prelude(), "prelude"),
        _ => {
            let mut c = prelude();
            let _ = eval(&mut c, "let x = 2 m\nfn f(a) = a * 2\nstruct P { a: Scalar }\nunit foo = 3 m\nlet y = [1, 2, 3]");
            (c, "prelude+definitions")
        }
    };
    if std::env::var("VERIF_TRACE").is_ok() {
        eprintln!("TRACE {sess} {text:?}");
    }
    // an evaluation that never returns is reported by the watchdog thread (engine.rs)
    let token = watch_begin(
        "C08",
        "inputs",
        json!({"text_only": text, "session": session}),
        format!("input {:?} ({kind}, {sess} session)", text),
    );
    // CPU time of this thread, not wall-clock time: the verdict must not depend on load
    let started = thread_cpu_seconds();
    let o = eval_with(
        &mut ctx,
        text,
        &EvalOpts {
            render_diagnostics: true,
            source: CodeSource::Text,
        },
    );
    let elapsed = thread_cpu_seconds() - started;
    watch_end(token);
    if let Some((loc, msg)) = &o.panic {
        return Err(Failure::new(
            panic_signature(text, loc, msg),
            format!("input {:?} ({kind}, {sess} session) panicked at {loc}: {}", text, msg.chars().take(200).collect::<String>()),
        ));
    }
    // a second input in the same session must still work (the failed one left it usable)
    let o2 = eval(&mut ctx, "1 + 1");
    if let Some((loc, msg)) = &o2.panic {
        return Err(Failure::new(panic_signature(text, loc, msg), format!("after input {:?}: `1 + 1` panicked at {loc}: {msg}", text)));
    }
    let defines_function = text.contains("fn ");
    if o.budget_exhausted() {
        // a long-running (possibly unbounded) recursion in user or library code: stopped by
        // the harness's VM step budget; inconclusive, never a violation
        st.label("stopped-by-step-budget");
        return Ok(());
    }
    // 60 s: an input that ends just below the step budget costs up to ~10 s of CPU time on an idle
    // machine and was measured at 30 s when all cores (and their caches) were shared with other jobs
    if elapsed > 60.0 && !defines_function {
        return Err(Failure::new("hang", format!("input {:?} ({kind}) took {elapsed:.1} s of CPU time", text)));
    }
    let stage = match &o.error {
        None => "ok",
        Some(e) => match e.stage {
            Stage::Resolver => "resolver/parser",
            Stage::NameResolution => "name-resolution",
            Stage::TypeCheck => "typecheck",
            Stage::Runtime => "runtime",
        },
    };
    st.label(&format!("stage:{stage}"));
    st.label(&format!("kind:{kind}"));
    st.label(&format!("session:{sess}"));
    let tokens = tokenize_rough(text).iter().filter(|t| !t.trim().is_empty()).count();
    if tokens >= 4 && matches!(stage, "ok" | "typecheck" | "runtime") {
        st.nontrivial_with_sample(hash_str(text), || json!({"input": text, "kind": kind, "session": sess, "outcome": o.summary().chars().take(120).collect::<String>()}));
    }
    Ok(())
}

fn check(c: &(G, u8), st: &mut Stats) -> CheckResult {
    let (text, kind) = build(&c.0);
    check_input(&text, kind, c.1, st)
}

fn run(cfg: &Cfg) -> Report {
    let mut rep = Report::new(
        cfg,
        "proptest inputs of eight kinds: calls of every public prelude function (list read from the session, random-number functions excepted) with arguments drawn from typed pools of edge values (non-ASCII strings, 0/NaN/inf, huge, tiny and negative numbers, quantities, empty/nested/mixed lists, function names, extreme dates; one argument in eight ignores the declared type), 1-4 characters from an alphabet read from numbat's tokenizer and parser sources plus the whole Unicode super/subscript block appended to 14 stems, token soup over a 190-token vocabulary (numbers incl. extreme ones, units, all operator spellings, brackets, keywords, library functions, type syntax), 1-3 token mutations (delete, duplicate, swap, replace by an extreme value or a vocabulary token) of 1-5 consecutive lines of the example and module corpus read from /repo, 75 templates with extreme values substituted (huge exponents, factorial chains, overflowing integers, NaN/inf, format specifiers), corrupted generated programs, bounded nesting/operator runs, and random bytes; each in a fresh, a prelude, or a prelude-plus-definitions session; plus the complete enumeration of every one- and two-character continuation (same alphabet) after an operand. Oracle: interpretation returns (result or error); on error every diagnostic renders through codespan term::emit; no panic (debug assertions and overflow checks are on in this build); the session accepts a further input; an input without `fn` that stays within the harness's VM step budget uses less than 60 s of CPU time. Panics are keyed by file + message (not line). non-trivial = >= 4 tokens and the input reached the type checker or ran; distinct = input text",
    );
    let cases = cfg.tier.pick(1500u32, 100000u32);
    rep.absorb(run_proptest(
        cfg,
        "inputs",
        cases,
        || (g_strategy(), 0u8..3),
        |c: &(G, u8)| json!({"gen": c.0, "session": c.1, "text": build(&c.0).0}),
        check,
    ));
    // every pair of alphabet characters directly after an operand (complete enumeration):
    // two-character tokens such as exponents, operators and quotes in all their spellings
    let a = alphabet();
    let stems: &[&str] = cfg.tier.pick(&["m", "2"][..], &["m", "2", "2 m^", "dimension Q = Length", "x = \"", "let q: Length"][..]);
    let mut pairs: Vec<String> = vec![];
    for stem in stems {
        for c1 in a {
            pairs.push(format!("{stem}{c1}"));
            for c2 in a {
                pairs.push(format!("{stem}{c1}{c2}"));
            }
        }
    }
    rep.absorb(run_enumerated(
        cfg,
        "char-pairs",
        &pairs,
        |t: &String| json!({"text_only": t, "session": 1}),
        |t: &String, st: &mut Stats| check_input(t, "character-pairs", 1, st),
    ));
    if cfg.tier == Tier::Thorough && !rep.failed() {
        // coverage-guided campaign over raw bytes with the same oracle (libFuzzer target
        // `interp`), seeded with corpus lines, dictionary = vocabulary + alphabet
        let seeds: Vec<Vec<u8>> = corpus()
            .iter()
            .step_by((corpus().len() / 300).max(1))
            .enumerate()
            .map(|(i, l)| {
                let mut b = vec![(i % 3) as u8];
                b.extend_from_slice(l.as_bytes());
                b
            })
            .collect();
        let mut dict: Vec<String> = VOCAB.iter().map(|s| s.to_string()).collect();
        dict.extend(a.iter().filter(|c| !c.is_ascii()).map(|c| c.to_string()));
        dict.extend(EXTREME_VALUES.iter().map(|s| s.to_string()));
        rep.absorb(run_libfuzzer(cfg, "interp", 400_000, 300, &seeds, &dict, fuzz_bytes));
        rep.rule.push_str("; thorough tier: followed by a coverage-guided libFuzzer campaign over raw bytes (16 jobs x 400,000 executions, inputs <= 300 bytes, corpus seeded with ~300 lines of the example/module corpus, dictionary = vocabulary + non-ASCII alphabet + extreme values) with the same oracle inside the fuzz target; its executions are included in evaluations (class libfuzzer:interp:executions), not in distinct_nontrivial");
    }
    rep.extra("alphabet_size", json!(a.len()));
    rep.extra("corpus_lines", json!(corpus().len()));
    rep.assume("nesting depth and operator runs are bounded (<= 60 levels / 1200 operators): deeper inputs overflow the native stack of numbat's recursive-descent parser; that aborts the process, cannot be observed in-process and is a stated gap of this check (DESIGN.md section 8)");
    rep
}

/// Entry point shared by the libFuzzer target `interp` and the replay of its artifacts:
/// byte 0 chooses the session, the rest is the (lossily decoded) input text.
pub fn fuzz_bytes(data: &[u8], st: &mut Stats) -> CheckResult {
    if data.len() < 2 {
        return Ok(());
    }
    let text = String::from_utf8_lossy(&data[1..]).to_string();
    check_input(&text, "libfuzzer", data[0], st)
}

fn bytes_of(case: &J) -> Option<Vec<u8>> {
    case["fuzz_bytes"].as_array().map(|a| a.iter().map(|b| b.as_u64().unwrap_or(0) as u8).collect())
}

fn replay(_sub: &str, case: &J) -> CheckResult {
    let mut st = Stats::default();
    if let Some(b) = bytes_of(case) {
        return fuzz_bytes(&b, &mut st);
    }
    if let Some(t) = case["text_only"].as_str() {
        return check_input(t, "replay", case["session"].as_u64().unwrap_or(1) as u8, &mut st);
    }
    match serde_json::from_value::<G>(case["gen"].clone()) {
        Ok(g) => check(&(g, case["session"].as_u64().unwrap_or(1) as u8), &mut st),
        Err(_) => check_input(case["text"].as_str().unwrap_or(""), "replay", case["session"].as_u64().unwrap_or(1) as u8, &mut st),
    }
}

//! C05 — automatic unit simplification never changes the quantity.

use super::pairs::*;
use crate::engine::*;
use crate::gen_util::*;
use crate::refmodel::units::*;
use crate::session::*;
use crate::PropDef;
use numbat::verif_hooks::{VFactor, VQuantity, VValue};
use proptest::prelude::*;
use serde::{Deserialize, Serialize};
use serde_json::{Value as J, json};

pub fn def() -> PropDef {
    PropDef {
        id: "C05",
        run,
        replay,
    }
}

#[derive(Clone, Debug, Serialize, Deserialize)]
struct Case {
    /// expression whose result is simplified for display
    expr: String,
    /// if set, the expression is `expr -> target` and must keep exactly this unit
    target: Option<String>,
    kind: String,
}

/// Source text for one unit factor (prefix + unit + exponent), using an alias that accepts the
/// needed prefix form.
pub fn spell_factor(cat: &Catalogue, f: &VFactor) -> Option<String> {
    let ui = *cat.by_name.get(&f.unit)?;
    let e = Rat::from_pair(f.exponent);
    let forms = cat.usable_forms(ui);
    let want = match f.prefix {
        numbat::verif_hooks::VPrefix::Metric(0) => None,
        p => Some(PREFIX_TABLE.iter().position(|t| t.vprefix() == p)?),
    };
    let (ident, _, _) = forms.iter().find(|(_, _, p)| *p == want)?;
    Some(if e == Rat::one() {
        ident.clone()
    } else {
        format!("{ident}^({e})")
    })
}

pub fn spell_unit(cat: &Catalogue, fs: &[VFactor]) -> Option<String> {
    if fs.is_empty() {
        return Some("1".into());
    }
    let parts: Option<Vec<String>> = fs.iter().map(|f| spell_factor(cat, f)).collect();
    Some(format!("({})", parts?.join(" * ")))
}

fn quantity_of(v: &Option<VValue>) -> Option<VQuantity> {
    match v {
        Some(VValue::Quantity(q)) => Some(q.clone()),
        _ => None,
    }
}

fn check(c: &Case, st: &mut Stats) -> CheckResult {
    st.eval();
    let cat = prelude_catalogue();
    let mut ctx = prelude();
    let full = match &c.target {
        Some(t) => format!("({}) -> {t}", c.expr),
        None => c.expr.clone(),
    };
    let code = format!("let xx_v = {full}\nprint(xx_v)\nprint(\"{{xx_v}}\")\nxx_v");
    let o = eval(&mut ctx, &code);
    if let Some((loc, msg)) = &o.panic {
        return Err(Failure::new(format!("panic:{loc}"), format!("`{full}`: panic at {loc}: {msg}")));
    }
    if !o.ok() {
        return Err(Failure::new("simplify-input-fails", format!("{} for `{full}`", o.summary())));
    }
    let Some(VValue::Quantity(raw)) = ctx.verif_raw_global("xx_v") else {
        return Err(Failure::new("harness", "not a quantity"));
    };
    let Some(shown) = quantity_of(&o.result) else {
        return Err(Failure::new("harness", "result is not a quantity"));
    };
    let text = o.result_text.clone().unwrap_or_default();
    let ph = |q: &VQuantity| cat.physical(q).ok_or_else(|| Failure::new("harness", "unknown unit"));
    let (pr, ps) = (ph(&raw)?, ph(&shown)?);
    // the three display paths agree
    if o.prints.len() != 2 || o.prints[0] != text || o.prints[1] != text {
        return Err(Failure::new(
            "display-paths-differ",
            format!("`{full}`: result is shown as `{text}`, print() shows `{:?}`, interpolation shows `{:?}`", o.prints.first(), o.prints.get(1)),
        ));
    }
    if let Some(t) = &c.target {
        // explicit conversion: the unit must be kept exactly
        let ot = eval(&mut ctx, &format!("let xx_t = {t}"));
        if !ot.ok() {
            return Err(Failure::new("harness", format!("target `{t}` does not evaluate: {}", ot.summary())));
        }
        let Some(VValue::Quantity(tq)) = ctx.verif_raw_global("xx_t") else {
            return Err(Failure::new("harness", "target not a quantity"));
        };
        if shown.factors != tq.factors || raw.factors != tq.factors {
            return Err(Failure::new(
                "explicit-conversion-simplified",
                format!("`{full}` is displayed as `{text}`: the unit chosen by `->` ({}) was not kept", tq.unit_display),
            ));
        }
        if shown.value.to_bits() != raw.value.to_bits() && shown.value != raw.value {
            return Err(Failure::new(
                "explicit-conversion-simplified",
                format!("`{full}`: displayed value {} differs from the converted value {}", shown.value, raw.value),
            ));
        }
        st.label("explicit-conversion-kept");
        st.nontrivial_with_sample(hash_str(&full), || json!({"expr": full, "displayed": text}));
        return Ok(());
    }
    if ps.vec != pr.vec {
        return Err(Failure::new(
            "simplify-changes-dimension",
            format!("`{full}` = {} {} is displayed as `{text}` with base units {} instead of {}", raw.value, raw.unit_display, ps.vec, pr.vec),
        ));
    }
    if raw.value.is_finite() && raw.value != 0.0 && pr.mag.is_finite() && pr.mag != 0.0
        && (!shown.value.is_finite() || shown.value == 0.0)
    {
        return Err(Failure::new(
            "simplify-overflow",
            format!("`{full}` = {} {} (finite, non-zero) is displayed as `{text}`", raw.value, raw.unit_display),
        ));
    }
    let extreme = !(1e-100..=1e100).contains(&shown.value.abs()) && shown.value != 0.0;
    if !rel_close(ps.mag, pr.mag, 1e-9) {
        if extreme {
            // conversion factors beyond 1e±100: precision is lost through subnormal
            // intermediates; recorded with the overflow class, not as a separate defect
            return Err(Failure::new(
                "simplify-overflow",
                format!("`{full}` = {} {} is displayed as `{text}`: magnitude off by {:e} relative at an extreme scale", raw.value, raw.unit_display, (ps.mag / pr.mag - 1.0).abs()),
            ));
        }
        return Err(Failure::new(
            "simplify-changes-magnitude",
            format!(
                "`{full}` = {} {} = {} in base units is displayed as `{text}` = {} in base units",
                raw.value, raw.unit_display, pr.mag, ps.mag
            ),
        ));
    }
    // converting the simplified result back to the raw unit restores the raw magnitude
    if shown.factors != raw.factors && !extreme {
        if let (Some(su), Some(ru)) = (spell_unit(&cat, &shown.factors), spell_unit(&cat, &raw.factors)) {
            let back = eval(&mut ctx, &format!("let xx_b = {} * {su} -> {ru}", lit(shown.value)));
            if let Some((loc, msg)) = &back.panic {
                return Err(Failure::new(format!("panic:{loc}"), format!("converting `{text}` back: panic {msg}")));
            }
            if !back.ok() {
                return Err(Failure::new(
                    "simplified-not-convertible-back",
                    format!("`{full}` is displayed as `{text}`, which cannot be converted back to {}: {}", raw.unit_display, back.summary()),
                ));
            }
            let Some(VValue::Quantity(b)) = ctx.verif_raw_global("xx_b") else {
                return Err(Failure::new("harness", "not a quantity"));
            };
            if (!b.value.is_finite() || b.value == 0.0) && raw.value.is_finite() && raw.value != 0.0 {
                // the conversion between the merged extreme unit and the raw unit leaves the
                // f64 range: the recorded overflow class
                return Err(Failure::new(
                    "simplify-overflow",
                    format!("`{text}` converted back to {} gives {}, the unsimplified value is {}", raw.unit_display, b.value, raw.value),
                ));
            }
            if !rel_close(b.value, raw.value, 1e-9) {
                return Err(Failure::new(
                    "simplify-changes-magnitude",
                    format!("`{text}` converted back to {} gives {}, the unsimplified value is {}", raw.unit_display, b.value, raw.value),
                ));
            }
            st.label("converted-back");
        }
    }
    let class = if shown.factors == raw.factors {
        "untouched"
    } else if shown.factors.is_empty() {
        "collapsed-to-scalar"
    } else if shown.factors.len() < raw.factors.len() {
        "merged-or-rewritten"
    } else {
        "rearranged"
    };
    st.label(&format!("class:{class}"));
    st.label(&format!("kind:{}", c.kind));
    if shown.factors != raw.factors {
        st.nontrivial_with_sample(hash_str(&full), || json!({"expr": full, "raw": format!("{} {}", raw.value, raw.unit_display), "displayed": text}));
    }
    Ok(())
}

// ------------------------------------------------------------------------------------------
// generators
// ------------------------------------------------------------------------------------------

#[derive(Clone, Debug, Serialize, Deserialize)]
struct Slot {
    unit: u16,
    form: u16,
    exp: u8,
    /// 0: random unit; 1: a unit of the same dimension as the previous slot, inverted
    /// (dimensionless combination); 2: same dimension as the previous slot (repeated
    /// dimension in different units)
    rel: u8,
}

#[derive(Clone, Debug, Serialize, Deserialize)]
struct Product {
    slots: Vec<Slot>,
    mag: u16,
    convert: bool,
    target_seed: u16,
}

const EXPS: [(i128, i128); 8] = [(1, 1), (-1, 1), (2, 1), (-2, 1), (3, 1), (1, 2), (-1, 2), (3, 2)];
const MAGS: [f64; 8] = [1.0, 2.5, 20.0, 1e-3, 1234.5, 7e6, 0.03, 3.0];

fn product_strategy() -> impl Strategy<Value = Product> {
    let slot = (idx(), idx(), 0u8..8, 0u8..4).prop_map(|(unit, form, exp, rel)| Slot {
        unit,
        form,
        exp,
        rel: if rel == 3 { 0 } else { rel },
    });
    (proptest::collection::vec(slot, 2..6), idx(), any::<bool>(), idx()).prop_map(|(slots, mag, convert, target_seed)| Product {
        slots,
        mag,
        convert,
        target_seed,
    })
}

/// Special combinations the heuristics care about, as seeds for every run.
const SEEDS: &[&str] = &[
    "5 m / 20 km", "3 % * 7 kg", "250 ppm * 2 L", "2 rad * 3 m", "1 J / 2 s", "6 N / 3 Pa", "5 Wh / 2 W",
    "3 Hz * 4 s", "16 bit / 2 B", "1 gal / 2 in^2", "2 m * 50 cm", "20 gallon * 30 mpg", "1 gallon / 2 mpg",
    "2 litre * 3 darcy^2", "5 km / 2 h * 30 min", "1 kWh / 1 kW", "3 V * 2 A", "5 kg * 9.81 m / s^2",
    "2 m^2 / 5 m", "1 N * 1 m", "4 W * 1 s / 2 J", "1 mile / 1 hour * 1 s", "2 m^(1/2) * 3 m^(1/2)",
    "1 barn * 1 Mpc", "60 km/h * 2 h", "1 dpi * 2 in", "3 dot / 1 in", "1 cm * 1 mm * 1 m", "1 degree * 1 m",
];

fn build(p: &Product) -> Case {
    let cat = prelude_catalogue();
    let mut parts: Vec<String> = vec![];
    let mut prev: Option<(usize, (i128, i128))> = None;
    for s in &p.slots {
        let mut u = pick_idx(s.unit, cat.units.len());
        let mut e = EXPS[s.exp as usize % EXPS.len()];
        if let Some((pu, pe)) = prev {
            if s.rel == 1 || s.rel == 2 {
                let group = cat.groups.iter().find(|g| g.contains(&pu)).unwrap();
                u = group[pick_idx(s.unit, group.len())];
                e = if s.rel == 1 { (-pe.0, pe.1) } else { pe };
            }
        }
        let forms = cat.usable_forms(u);
        let (ident, _, _) = &forms[pick_idx(s.form, forms.len())];
        parts.push(if e == (1, 1) {
            ident.clone()
        } else if e.1 == 1 {
            format!("{ident}^({})", e.0)
        } else {
            format!("{ident}^({}/{})", e.0, e.1)
        });
        prev = Some((u, e));
    }
    let expr = format!("{} * ({})", lit(MAGS[pick_idx(p.mag, MAGS.len())]), parts.join(" * "));
    Case {
        expr,
        target: if p.convert {
            // the expression's own unit, written with the primary names in reversed order
            let mut rev = parts.clone();
            rev.rotate_left((p.target_seed as usize) % parts.len().max(1));
            Some(format!("({})", rev.join(" * ")))
        } else {
            None
        },
        kind: "product".into(),
    }
}

fn pair_cases(cfg: &Cfg) -> Vec<Case> {
    let cat = prelude_catalogue();
    let mut out = vec![];
    let n = cat.units.len();
    let stride = cfg.tier.pick(7usize, 1usize);
    let offset = (cfg.seed as usize) % stride;
    let mut k = 0usize;
    for a in 0..n {
        for b in 0..n {
            k += 1;
            if k % stride != offset {
                continue;
            }
            let (na, nb) = (&cat.units[a].def.name, &cat.units[b].def.name);
            out.push(Case { expr: format!("3 {na} * 2 {nb}"), target: None, kind: "pair-product".into() });
            out.push(Case { expr: format!("3 {na} / (2 {nb})"), target: None, kind: "pair-quotient".into() });
        }
    }
    out
}

fn run(cfg: &Cfg) -> Report {
    let mut rep = Report::new(
        cfg,
        "(1) fixed seeds for the combinations the simplifier special-cases; (2) products and quotients `u1*u2`, `u1/u2` of prelude units by primary name (quick: every 7th ordered pair, offset by the seed; thorough: all 2x179^2); (3) proptest products of 2-5 unit powers (any alias/prefix; exponents +-1,2,3,+-1/2,3/2) biased towards dimensionless combinations and repeated dimensions in different units, half of them followed by an explicit conversion to their own unit in another factor order. Oracle: the displayed (simplified) quantity has the same base-unit vector and the same base-unit magnitude (1e-9) as the raw value of `let v = e` read through the hook; result, print() and string interpolation show the same text; converting the displayed value back to the raw unit restores the raw magnitude (1e-9); after `e -> U` all paths keep exactly U's factor list and the converted value. non-trivial = the displayed unit differs from the raw unit (or an explicit conversion is kept); distinct = expression text",
    );
    let seeds: Vec<Case> = SEEDS
        .iter()
        .map(|s| Case { expr: s.to_string(), target: None, kind: "seed".into() })
        .collect();
    rep.absorb(run_enumerated(cfg, "seeds", &seeds, |c| serde_json::to_value(c).unwrap(), check));
    if !rep.failed() {
        let pairs = pair_cases(cfg);
        rep.extra("pair_expressions", json!(pairs.len()));
        rep.absorb(run_enumerated(cfg, "pairs", &pairs, |c| serde_json::to_value(c).unwrap(), check));
    }
    if !rep.failed() {
        let cases = cfg.tier.pick(8000u32, 60000u32);
        rep.absorb(run_proptest(
            cfg,
            "products",
            cases,
            product_strategy,
            |p: &Product| json!({"product": p, "built": build(p)}),
            |p: &Product, st| check(&build(p), st),
        ));
    }
    rep.exhaustive = Some(false);
    rep
}

fn replay(sub: &str, case: &J) -> CheckResult {
    let c: Case = if sub == "products" {
        match serde_json::from_value::<Product>(case["product"].clone()) {
            Ok(p) => build(&p),
            Err(_) => serde_json::from_value(case["built"].clone()).map_err(|e| Failure::new("harness", e.to_string()))?,
        }
    } else {
        serde_json::from_value(case.clone()).map_err(|e| Failure::new("harness", e.to_string()))?
    };
    check(&c, &mut Stats::default())
}

#!/bin/bash
# tools/all_thorough.sh [ID ...] — run thorough tiers one after another, print one line per check.
ROOT="$(cd "$(dirname "$0")/.." && pwd)"
IDS="$@"; [ -z "$IDS" ] && IDS=$(ls "$ROOT"/harness/src/props/ | grep -E "^c[0-9]+\.rs$" | sed "s/\.rs//" | tr a-z A-Z)
bad=0
for id in $IDS; do
  start=$(date +%s)
  out=$("$ROOT/run.sh" "$id" thorough 2>&1); rc=$?
  echo "$id thorough rc=$rc $(( $(date +%s) - start ))s $(echo "$out" | grep -E "^\[$id\] tier" | cut -c1-160)"
  if [ $rc -ne 0 ]; then bad=1; echo "$out" | grep -v "^KNOWN" | cut -c1-800 | head -12; fi
done
exit $bad

#!/bin/bash
# confirm_mutant.sh <name> <worktree>
# Confirms a seeded change produced in a scratch worktree of /repo:
#   1. the unedited test suite passes with the change,
#   2. the demonstration fails with the change,
#   3. the demonstration passes without it.
# On success the change is stored as /verif/seeded/<name>/ (patch.diff, demo files, REPORT.md).
set -u
name="$1"; wt="$2"
export CARGO_NET_OFFLINE=true CARGO_TARGET_DIR="$wt/target"
cd "$wt" || exit 2
out=/verif/seeded/$name
mkdir -p "$out"
git diff -- numbat/src numbat/modules numbat-cli/src > "$out/patch.diff"
if [ ! -s "$out/patch.diff" ]; then echo "no source change in $wt"; exit 2; fi
echo "== patch: $(grep -c '^[-+][^-+]' "$out/patch.diff") changed lines in $(grep -c '^diff' "$out/patch.diff") file(s)"
echo "== 1. test suite with the change"
cargo test --workspace --no-fail-fast --offline > "$out/tests.log" 2>&1
t=$?
grep '^test result' "$out/tests.log" | awk '{p+=$4; f+=$6} END {print "passed=" p " failed=" f}'
echo "tests exit=$t"
echo "== 2. demo with the change"
timeout 900 ./demo.sh > "$out/demo_with.log" 2>&1; d1=$?
echo "demo exit with change=$d1"; tail -3 "$out/demo_with.log"
echo "== 3. demo without the change"
git apply -R "$out/patch.diff" || { echo "cannot revert"; exit 2; }
timeout 900 ./demo.sh > "$out/demo_without.log" 2>&1; d0=$?
echo "demo exit without change=$d0"; tail -3 "$out/demo_without.log"
git apply "$out/patch.diff"
# keep the demonstration files (everything untracked except build output and logs)
for f in $(git ls-files --others --exclude-standard | grep -v '^target/' | grep -v '^mutant.diff$'); do
  mkdir -p "$out/demo/$(dirname "$f")"; cp "$f" "$out/demo/$f"
done
if [ $t -eq 0 ] && [ $d1 -ne 0 ] && [ $d0 -eq 0 ]; then echo "CONFIRMED $name"; exit 0; fi
echo "NOT CONFIRMED $name (tests=$t with=$d1 without=$d0)"; exit 1

//! TypedGen — a dimension-aware generator of programs that are well-typed by construction.
//!
//! Every expression is generated *for* a requested dimension vector (over base dimensions),
//! so the generator is itself an independent dimensional analysis: the vector it was asked
//! for is the reference type of what it produced. Used by C01 and C02.

use crate::engine::splitmix64;
use crate::refmodel::units::*;
use proptest::prelude::*;
use serde::{Deserialize, Serialize};

pub const BASE_DIMS: [&str; 3] = ["Length", "Time", "Mass"];

/// Named derived dimensions that may be used in annotations when they match.
const NAMED_DIMS: &[(&str, [i64; 3])] = &[
    ("Velocity", [1, -1, 0]),
    ("Acceleration", [1, -2, 0]),
    ("Area", [2, 0, 0]),
    ("Volume", [3, 0, 0]),
    ("Frequency", [0, -1, 0]),
    ("Force", [1, -2, 1]),
    ("Energy", [2, -2, 1]),
    ("Power", [2, -3, 1]),
    ("Pressure", [-1, -2, 1]),
    ("Momentum", [1, -1, 1]),
    ("MassDensity", [-3, 0, 1]),
];

#[derive(Clone, Debug, Serialize, Deserialize)]
pub enum TIns {
    /// `let v[: T] = e` with a random dimension
    Let { dim: [i8; 3], half: u8, seed: u32, annotate: u8 },
    /// generic function definition + instantiations at two dimensions
    Generic { kind: u8, seed: u32 },
    /// function with annotated concrete parameters
    Func { dim: [i8; 3], seed: u32 },
    /// struct with quantity fields, instance, field access
    Struct { dim: [i8; 3], seed: u32 },
    /// list of quantities and list functions
    List { dim: [i8; 3], seed: u32 },
    /// user dimension + base unit + derived unit
    UserDim { seed: u32 },
    /// comparison / conditional over quantities
    Compare { dim: [i8; 3], seed: u32 },
    Print { dim: [i8; 3], seed: u32 },
    Assert { dim: [i8; 3], seed: u32 },
    /// redefinition of an existing global at a different dimension, then a function whose
    /// body reads the global (every name refers to its innermost definition)
    Redefine { var: u16, dim: [i8; 3], seed: u32 },
    /// a struct generic over two dimensions and a generic function that returns it with the
    /// type arguments permuted (`GPair<B, A>`), instantiated at two dimensions
    GenericStruct { dim: [i8; 3], seed: u32 },
    /// a function whose parameter is named like a unit alias (`m`, `s`, `g`) and whose body uses
    /// a prefixed form of that unit (`km`, `ms`, `kg`): the prefixed identifier is still the unit
    ShadowUnit { dim: [i8; 3], which: u8, seed: u32 },
    /// recorded finding class: a second base unit for a dimension that already has one
    /// (`unit b2: Length`), added to a quantity of the first (generated rarely, only when the
    /// known classes are allowed)
    SecondBaseUnit { seed: u32 },
}

pub fn tins_strategy() -> impl Strategy<Value = TIns> {
    let dim = || [-2i8..3, -2i8..3, -1i8..2];
    prop_oneof![
        8 => (dim(), 0u8..8, any::<u32>(), 0u8..3).prop_map(|(dim, half, seed, annotate)| TIns::Let { dim, half, seed, annotate }),
        3 => (0u8..8, any::<u32>()).prop_map(|(kind, seed)| TIns::Generic { kind, seed }),
        3 => (dim(), any::<u32>()).prop_map(|(dim, seed)| TIns::Func { dim, seed }),
        2 => (dim(), any::<u32>()).prop_map(|(dim, seed)| TIns::Struct { dim, seed }),
        2 => (dim(), any::<u32>()).prop_map(|(dim, seed)| TIns::List { dim, seed }),
        1 => any::<u32>().prop_map(|seed| TIns::UserDim { seed }),
        3 => (dim(), any::<u32>()).prop_map(|(dim, seed)| TIns::Compare { dim, seed }),
        2 => (dim(), any::<u32>()).prop_map(|(dim, seed)| TIns::Print { dim, seed }),
        1 => (dim(), any::<u32>()).prop_map(|(dim, seed)| TIns::Assert { dim, seed }),
        2 => (any::<u16>(), dim(), any::<u32>()).prop_map(|(var, dim, seed)| TIns::Redefine { var, dim, seed }),
        1 => (dim(), any::<u32>()).prop_map(|(dim, seed)| TIns::GenericStruct { dim, seed }),
        3 => (dim(), 0u8..9, any::<u32>()).prop_map(|(dim, which, seed)| TIns::ShadowUnit { dim, which, seed }),
        1 => any::<u32>().prop_map(|seed| TIns::SecondBaseUnit { seed }),
    ]
}

pub fn vec_of(d: [i8; 3], half: u8) -> DimVec {
    let mut v = DimVec::scalar();
    for (i, n) in d.iter().enumerate() {
        if *n != 0 {
            v = v.mul(&DimVec::single(BASE_DIMS[i]).pow(Rat::int(*n as i128)));
        }
    }
    // occasionally a rational overall power
    match half {
        7 => v.pow(Rat::new(1, 2)),
        6 => v.pow(Rat::new(3, 2)),
        _ => v,
    }
}

#[derive(Clone, Debug)]
pub struct Stmt {
    pub text: String,
    /// names defined with their reference dimension (None: not a quantity)
    pub defines: Vec<(String, Option<DimVec>)>,
    /// for expression statements and lets: the reference dimension of the statement
    pub dim: Option<DimVec>,
    pub prints: usize,
}

struct Rng(u64);
impl Rng {
    fn next(&mut self) -> u64 {
        self.0 = splitmix64(self.0);
        self.0
    }
    fn below(&mut self, n: usize) -> usize {
        if n == 0 { 0 } else { (self.next() % n as u64) as usize }
    }
    fn chance(&mut self, num: usize, den: usize) -> bool {
        self.below(den) < num
    }
}

#[derive(Clone, Debug, Default)]
pub struct Features {
    /// nodes that make a program non-trivial for C01
    pub rational_power: bool,
    pub composite_exponent: bool,
    pub generic_instantiations: usize,
    pub struct_or_list: bool,
    pub derived_dimension: bool,
    pub redefinition: bool,
    pub zero_exponent: bool,
    pub second_base_unit: bool,
    /// known-finding classes that were generated
    pub inexact_float_exponent: bool,
    pub polymorphic_literal: bool,
}

pub struct Gen<'a> {
    pub cat: &'a Catalogue,
    /// variables in scope: name, dimension
    pub vars: Vec<(String, DimVec)>,
    /// generic functions: name, kind
    pub generics: Vec<(String, u8)>,
    pub counter: usize,
    pub features: Features,
    /// C02: index of the equality site to poison in the statement being rendered
    pub poison: Option<usize>,
    pub site: usize,
    pub poisoned: bool,
    /// allow the recorded finding classes (inexact float exponents, polymorphic literals)
    pub allow_known_classes: bool,
    units_by_dim: Vec<Vec<String>>,
    user_units: Vec<(String, DimVec)>,
    /// struct instances and lists bound to globals, with the dimensions of what they hold
    pub shapes: Vec<(String, Shape)>,
}

#[derive(Clone, Debug)]
pub enum Shape {
    Struct(Vec<(String, DimVec)>),
    List(DimVec),
}

impl<'a> Gen<'a> {
    pub fn new(cat: &'a Catalogue) -> Gen<'a> {
        let mut units_by_dim = vec![];
        for d in BASE_DIMS {
            let want = DimVec::single(d);
            let mut names: Vec<String> = cat
                .units
                .iter()
                .filter(|u| u.dims == want && cat.unambiguous(&u.def.name))
                .map(|u| u.def.name.clone())
                .collect();
            names.sort();
            // a spread of sizes, deterministic
            let picked: Vec<String> = names.iter().step_by((names.len() / 6).max(1)).take(6).cloned().collect();
            units_by_dim.push(picked);
        }
        Gen {
            cat,
            vars: vec![],
            generics: vec![],
            counter: 0,
            features: Features::default(),
            poison: None,
            site: 0,
            poisoned: false,
            allow_known_classes: false,
            units_by_dim,
            user_units: vec![],
            shapes: vec![],
        }
    }

    fn fresh(&mut self, p: &str) -> String {
        self.counter += 1;
        format!("{p}_{}", self.counter)
    }

    /// An equality site: where the language requires `other` to have the same dimension as
    /// its counterpart. For the poisoned site the text is multiplied by a unit of time.
    fn site(&mut self, text: String) -> String {
        let i = self.site;
        self.site += 1;
        if self.poison == Some(i) {
            self.poisoned = true;
            format!("(({text}) * (3 second))")
        } else {
            text
        }
    }

    pub fn annotation(&mut self, v: &DimVec, r: &mut u64) -> String {
        let mut rng = Rng(*r);
        let s = self.annotation_inner(v, &mut rng);
        *r = rng.0;
        s
    }

    fn annotation_inner(&mut self, v: &DimVec, r: &mut Rng) -> String {
        if v.is_scalar() {
            return "Scalar".into();
        }
        if r.chance(1, 2) {
            for (name, e) in NAMED_DIMS {
                if &vec_of([e[0] as i8, e[1] as i8, e[2] as i8], 0) == v {
                    self.features.derived_dimension = true;
                    return name.to_string();
                }
            }
        }
        let mut parts = vec![];
        for (k, e) in &v.0 {
            if *e == Rat::one() {
                parts.push(k.clone());
            } else if e.is_int() {
                parts.push(format!("{k}^({})", e.n));
            } else {
                parts.push(format!("{k}^({}/{})", e.n, e.d));
            }
        }
        parts.join(" * ")
    }

    /// A unit expression of exactly the dimension `v`.
    fn unit_expr(&mut self, v: &DimVec, r: &mut Rng) -> String {
        if v.is_scalar() {
            return "1".into();
        }
        // a named derived unit of this dimension, if the catalogue has one
        if r.chance(1, 3) {
            let cands: Vec<&UnitInfo> = self.cat.units.iter().filter(|u| &u.dims == v && !u.def.is_base && self.cat.unambiguous(&u.def.name)).collect();
            if !cands.is_empty() {
                return cands[r.below(cands.len())].def.name.clone();
            }
        }
        let mut parts = vec![];
        for (k, e) in &v.0 {
            let unit = if let Some(i) = BASE_DIMS.iter().position(|d| d == k) {
                let opts = &self.units_by_dim[i];
                opts[r.below(opts.len())].clone()
            } else {
                // user dimension
                self.user_units.iter().find(|(_, d)| d.0.contains_key(k)).map(|(n, _)| n.clone()).unwrap_or_else(|| "1".into())
            };
            parts.push(if *e == Rat::one() {
                unit
            } else if e.is_int() {
                format!("{unit}^({})", e.n)
            } else {
                format!("{unit}^({}/{})", e.n, e.d)
            });
        }
        format!("({})", parts.join(" * "))
    }

    fn random_vec(&mut self, r: &mut Rng) -> DimVec {
        let d = [r.below(4) as i8 - 1, r.below(4) as i8 - 2, r.below(3) as i8 - 1];
        vec_of(d, 0)
    }

    /// exponent k = p/q in one of its compile-time spellings
    fn exponent_text(&mut self, k: Rat, r: &mut Rng) -> (String, bool) {
        if r.chance(1, 8) {
            // the exponent is itself a power: k^1, or (k²)^(1/2) written with ^ inside ^
            self.features.composite_exponent = true;
            let kt = if k.is_int() { format!("{}", k.n) } else { format!("{}/{}", k.n, k.d) };
            return (
                match r.below(3) {
                    0 => format!("^(({kt})^1)"),
                    1 if k.is_int() && k.n > 0 => format!("^({}^2 / {})", k.n, k.n),
                    _ => format!("^(({kt})^(3 - 2))"),
                },
                false,
            );
        }
        if k.is_int() {
            let n = k.n;
            match r.below(4) {
                0 if (2..=3).contains(&n) => (["²", "³"][(n - 2) as usize].to_string(), true),
                0 if n == -1 => ("⁻¹".to_string(), true),
                1 => {
                    self.features.composite_exponent = true;
                    (format!("^({} + {})", n - 1, 1), false)
                }
                2 if n > 0 => (format!("^{n}"), false),
                _ => (format!("^({n})"), false),
            }
        } else {
            self.features.rational_power = true;
            // a negative power of two inside the exponent: 1/2 = 2^-1, 1/4 = 2^-2
            if k.n == 1 && (k.d == 2 || k.d == 4) && r.chance(1, 5) {
                self.features.composite_exponent = true;
                return (format!("^(2^-{})", if k.d == 2 { 1 } else { 2 }), false);
            }
            match r.below(3) {
                0 if k.d == 2 || k.d == 4 => (format!("^({:?})", k.to_f64()), false),
                1 => {
                    self.features.composite_exponent = true;
                    (format!("^({} * (1/{}))", k.n, k.d), false)
                }
                _ => (format!("^({}/{})", k.n, k.d), false),
            }
        }
    }

    /// An expression whose dimension is exactly `v`.
    pub fn expr(&mut self, v: &DimVec, seed: &mut u64, depth: u32) -> String {
        let mut r = Rng(*seed);
        let s = self.expr_inner(v, &mut r, depth);
        *seed = r.0;
        s
    }

    fn leaf(&mut self, v: &DimVec, r: &mut Rng) -> String {
        let cands: Vec<String> = self.vars.iter().filter(|(_, d)| d == v).map(|(n, _)| n.clone()).collect();
        if !cands.is_empty() && r.chance(1, 2) {
            return cands[r.below(cands.len())].clone();
        }
        if self.allow_known_classes && !v.is_scalar() && r.chance(1, 600) {
            // recorded finding: a literal 0 is accepted at any dimension but carries no unit
            self.features.polymorphic_literal = true;
            return "0".into();
        }
        let mag = ["2", "3", "5", "1.5", "0.25", "12", "7", "100"][r.below(8)];
        if v.is_scalar() {
            mag.to_string()
        } else {
            format!("({mag} * {})", self.unit_expr(v, r))
        }
    }

    fn expr_inner(&mut self, v: &DimVec, r: &mut Rng, depth: u32) -> String {
        if depth == 0 {
            return self.leaf(v, r);
        }
        match r.below(13) {
            0 | 1 => self.leaf(v, r),
            2 => {
                let a = self.expr_inner(v, r, depth - 1);
                let b = self.expr_inner(v, r, depth - 1);
                let b = self.site(b);
                format!("({a} + {b})")
            }
            3 => {
                let a = self.expr_inner(v, r, depth - 1);
                let b = self.expr_inner(v, r, depth - 1);
                let b = self.site(b);
                format!("({a} - {b})")
            }
            4 => {
                let d1 = self.random_vec(r);
                let d2 = v.div(&d1);
                format!("({} * {})", self.expr_inner(&d1, r, depth - 1), self.expr_inner(&d2, r, depth - 1))
            }
            5 => {
                let d2 = self.random_vec(r);
                let d1 = v.mul(&d2);
                format!("({} / {})", self.expr_inner(&d1, r, depth - 1), self.expr_inner(&d2, r, depth - 1))
            }
            6 => {
                // power: v = base^k
                let ks = [Rat::int(2), Rat::int(3), Rat::int(-1), Rat::new(1, 2), Rat::new(3, 2), Rat::int(-2), Rat::new(1, 3), Rat::new(2, 3), Rat::new(1, 4)];
                let k = ks[r.below(ks.len())];
                let base = v.pow(Rat::new(k.d, k.n));
                // keep exponents of the base small
                if base.0.values().any(|e| e.d > 12 || e.n.abs() > 12) {
                    return self.leaf(v, r);
                }
                if self.allow_known_classes && !k.is_int() && r.chance(1, 25) && k == Rat::new(1, 2) {
                    // recorded finding: an exponent computed in floating point at run time that
                    // is not exactly the rational the checker computed (0.1 + 0.4 is exact; 0.1 + 0.2 is not)
                    self.features.inexact_float_exponent = true;
                    let b = self.expr_inner(&v.pow(Rat::new(10, 3)), r, depth - 1);
                    return format!("({b})^(0.1 + 0.2)");
                }
                let b = self.expr_inner(&base, r, depth - 1);
                let (text, unicode) = self.exponent_text(k, r);
                if unicode { format!("({b}){text}") } else { format!("(({b}){text})") }
            }
            7 => {
                let c = self.bool_expr(r, depth - 1);
                let a = self.expr_inner(v, r, depth - 1);
                let b = self.expr_inner(v, r, depth - 1);
                let b = self.site(b);
                format!("(if {c} then {a} else {b})")
            }
            8 => {
                // generic library functions that preserve the dimension
                let a = self.expr_inner(v, r, depth - 1);
                match r.below(5) {
                    0 => format!("abs({a})"),
                    1 => {
                        let b = self.expr_inner(v, r, depth - 1);
                        let b = self.site(b);
                        format!("maximum([{a}, {b}])")
                    }
                    2 => {
                        let b = self.expr_inner(v, r, depth - 1);
                        let b = self.site(b);
                        format!("minimum([{a}, {b}])")
                    }
                    3 => format!("(-{a})"),
                    _ => {
                        let u = self.unit_expr(v, r);
                        let u = self.site(u);
                        format!("({a} -> {u})")
                    }
                }
            }
            9 => {
                // sqrt / sqr / cbrt
                match r.below(3) {
                    0 => {
                        let inner = v.pow(Rat::int(2));
                        self.features.rational_power = true;
                        format!("sqrt({})", self.expr_inner(&inner, r, depth - 1))
                    }
                    1 => {
                        let inner = v.pow(Rat::new(1, 2));
                        if inner.0.values().any(|e| e.d > 8) {
                            return self.leaf(v, r);
                        }
                        format!("sqr({})", self.expr_inner(&inner, r, depth - 1))
                    }
                    _ => {
                        let inner = v.pow(Rat::int(3));
                        format!("cbrt({})", self.expr_inner(&inner, r, depth - 1))
                    }
                }
            }
            10 => {
                // a user-defined generic function, instantiated here
                if self.generics.is_empty() {
                    return self.leaf(v, r);
                }
                let (name, kind) = self.generics[r.below(self.generics.len())].clone();
                match self.call_generic(&name, kind, v, r, depth) {
                    Some(e) => e,
                    None => self.leaf(v, r),
                }
            }
            11 => {
                // through a list
                self.features.struct_or_list = true;
                let a = self.expr_inner(v, r, depth - 1);
                let b = self.expr_inner(v, r, depth - 1);
                let b = self.site(b);
                ["head([{a}, {b}])", "sum([{a}, {b}])", "maximum([{a}, {b}])", "mean([{a}, {b}])", "element_at(1, [{a}, {b}])"][r.below(5)]
                    .replace("{a}", &a)
                    .replace("{b}", &b)
            }
            _ => {
                // value_of / unit_of round trip, or times a dimensionless ratio
                let d = self.random_vec(r);
                let a = self.expr_inner(v, r, depth - 1);
                if r.chance(1, 3) {
                    // a zeroth power: dimensionless whatever the base is
                    self.features.zero_exponent = true;
                    let x = self.expr_inner(&d, r, depth - 1);
                    let zero = ["^0", "^(3 - 3)", "^(0/2)"][r.below(3)];
                    return match r.below(3) {
                        0 => format!("({a} * ({x}){zero})"),
                        1 => format!("({a} * (({x}){zero} + 1))"),
                        _ => format!("(if ({x}){zero} == 1 then {a} else {a})"),
                    };
                }
                let x = self.expr_inner(&d, r, depth - 1);
                let y = self.expr_inner(&d, r, depth - 1);
                let y = self.site(y);
                format!("({a} * ({x} / {y} -> 1))")
            }
        }
    }

    /// A call of the user-defined generic function `name` (of the given kind) whose result has
    /// dimension `v`.
    fn call_generic(&mut self, name: &str, kind: u8, v: &DimVec, r: &mut Rng, depth: u32) -> Option<String> {
        self.features.generic_instantiations += 1;
        let d = depth.saturating_sub(1);
        Some(match kind % 8 {
            // inferred: f(x, y) = x + y * 2  (two parameters that must have the same dimension:
            // the second argument is an equality site)
            7 => {
                let a = self.expr_inner(v, r, d);
                let b = self.expr_inner(v, r, d);
                let b = self.site(b);
                format!("{name}({a}, {b})")
            }
            // f<D>(a: D, t) = a / t  (an annotated parameter followed by an inferred one)
            5 => {
                let d2 = self.random_vec(r);
                let d1 = v.mul(&d2);
                format!("{name}({}, {})", self.expr_inner(&d1, r, d), self.expr_inner(&d2, r, d))
            }
            // f(a: Length, t, k: Scalar) = a * k / t  (an inferred parameter between annotated ones)
            6 => {
                let len = DimVec::single("Length");
                let d2 = len.div(v);
                format!("{name}({}, {}, {})", self.expr_inner(&len, r, d), self.expr_inner(&d2, r, d), self.expr_inner(&DimVec::scalar(), r, d))
            }
            // f<D>(x: D) -> D
            0 => format!("{name}({})", self.expr_inner(v, r, d)),
            // f<D>(x: D) -> D^2
            1 => {
                let inner = v.pow(Rat::new(1, 2));
                if inner.0.values().any(|e| e.d > 8) {
                    self.features.generic_instantiations -= 1;
                    return None;
                }
                format!("{name}({})", self.expr_inner(&inner, r, d))
            }
            // f<A, B>(a: A, b: B) -> A * B
            2 => {
                let d1 = self.random_vec(r);
                let d2 = v.div(&d1);
                format!("{name}({}, {})", self.expr_inner(&d1, r, d), self.expr_inner(&d2, r, d))
            }
            // f<A, B>(a: A, b: B) -> A / B
            3 => {
                let d2 = self.random_vec(r);
                let d1 = v.mul(&d2);
                format!("{name}({}, {})", self.expr_inner(&d1, r, d), self.expr_inner(&d2, r, d))
            }
            // inferred: f(x, y) = x * y^2  (unannotated)
            _ => {
                let d2 = self.random_vec(r);
                let d1 = v.div(&d2.pow(Rat::int(2)));
                format!("{name}({}, {})", self.expr_inner(&d1, r, d), self.expr_inner(&d2, r, d))
            }
        })
    }

    fn bool_expr(&mut self, r: &mut Rng, depth: u32) -> String {
        let d = self.random_vec(r);
        let a = self.expr_inner(&d, r, depth.min(1));
        let b = self.expr_inner(&d, r, depth.min(1));
        let b = self.site(b);
        let op = ["<", ">", "<=", ">=", "==", "!="][r.below(6)];
        format!("({a} {op} {b})")
    }

    /// Render one instruction into 1-4 statements.
    pub fn render(&mut self, ins: &TIns) -> Vec<Stmt> {
        match ins {
            TIns::Let { dim, half, seed, annotate } => {
                let v = vec_of(*dim, *half);
                let mut r = Rng(*seed as u64);
                let e = self.expr_inner(&v, &mut r, 3);
                let name = self.fresh("q");
                let text = match annotate % 3 {
                    0 => {
                        let ann = self.annotation_inner(&v, &mut r);
                        let e = self.site(e);
                        format!("let {name}: {ann} = {e}")
                    }
                    _ => format!("let {name} = {e}"),
                };
                self.vars.push((name.clone(), v.clone()));
                vec![Stmt { text, defines: vec![(name, Some(v.clone()))], dim: Some(v), prints: 0 }]
            }
            TIns::Generic { kind, seed } => {
                let name = self.fresh("gf");
                let text = match kind % 8 {
                    7 => format!("fn {name}(x, y) = x + y * 2"),
                    5 => format!("fn {name}<D: Dim>(a: D, t) = a / t"),
                    6 => format!("fn {name}(a: Length, t, k: Scalar) = a * k / t"),
                    0 => format!("fn {name}<D: Dim>(x: D) -> D = x * 2 + x"),
                    1 => format!("fn {name}<D: Dim>(x: D) -> D^2 = x * x"),
                    2 => format!("fn {name}<A: Dim, B: Dim>(a: A, b: B) -> A * B = a * b"),
                    3 => format!("fn {name}<A: Dim, B: Dim>(a: A, b: B) -> A / B = a / b"),
                    _ => format!("fn {name}(x, y) = x * y^2"),
                };
                self.generics.push((name.clone(), *kind));
                let mut out = vec![Stmt { text, defines: vec![(name.clone(), None)], dim: None, prints: 0 }];
                // two instantiations bound to globals, at different dimensions
                let mut r = Rng(*seed as u64);
                for _ in 0..2 {
                    let v = self.random_vec(&mut r);
                    let Some(e) = self.call_generic(&name, *kind, &v, &mut r, 2) else { continue };
                    let q = self.fresh("q");
                    self.vars.push((q.clone(), v.clone()));
                    out.push(Stmt { text: format!("let {q} = {e}"), defines: vec![(q, Some(v.clone()))], dim: Some(v), prints: 0 });
                }
                out
            }
            TIns::Func { dim, seed } => {
                let v = vec_of(*dim, 0);
                let mut r = Rng(*seed as u64);
                let p = self.random_vec(&mut r);
                let name = self.fresh("cf");
                // body uses the parameter: x-dependent part times a constant part
                let rest = v.div(&p);
                self.vars.push(("xx_param".into(), p.clone()));
                let body = format!("(xx_param * {})", self.expr_inner(&rest, &mut r, 2));
                self.vars.retain(|(n, _)| n != "xx_param");
                let pa = self.annotation_inner(&p, &mut r);
                let ra = self.annotation_inner(&v, &mut r);
                let body = self.site(body);
                let def = format!("fn {name}(xx_param: {pa}) -> {ra} = {body}");
                let arg = self.expr_inner(&p, &mut r, 2);
                let arg = self.site(arg);
                let q = self.fresh("q");
                self.vars.push((q.clone(), v.clone()));
                vec![
                    Stmt { text: def, defines: vec![(name.clone(), None)], dim: None, prints: 0 },
                    Stmt { text: format!("let {q} = {name}({arg})"), defines: vec![(q, Some(v.clone()))], dim: Some(v), prints: 0 },
                ]
            }
            TIns::Struct { dim, seed } => {
                let v = vec_of(*dim, 0);
                let mut r = Rng(*seed as u64);
                let w = self.random_vec(&mut r);
                // a third field whose dimension differs from the other two
                let mut u = self.random_vec(&mut r);
                if u == v || u == w {
                    u = v.mul(&w).mul(&DimVec::single("Mass"));
                }
                let sname = self.fresh("St");
                let (av, aw, au) = (self.annotation_inner(&v, &mut r), self.annotation_inner(&w, &mut r), self.annotation_inner(&u, &mut r));
                let (ev, ew, eu) = (self.expr_inner(&v, &mut r, 2), self.expr_inner(&w, &mut r, 2), self.expr_inner(&u, &mut r, 2));
                let ev = self.site(ev);
                let inst = self.fresh("s");
                let (q1, q2, q3) = (self.fresh("q"), self.fresh("q"), self.fresh("q"));
                self.features.struct_or_list = true;
                self.shapes.push((
                    inst.clone(),
                    Shape::Struct(vec![("first".into(), v.clone()), ("second".into(), w.clone()), ("third".into(), u.clone())]),
                ));
                self.vars.push((q1.clone(), v.clone()));
                self.vars.push((q2.clone(), w.clone()));
                self.vars.push((q3.clone(), u.clone()));
                // the fields are written in one of the five orders that differ from the declaration
                let mut fields = vec![format!("first: {ev}"), format!("second: {ew}"), format!("third: {eu}")];
                let rot = r.below(3);
                fields.rotate_left(rot);
                if rot == 0 || r.below(2) == 0 {
                    fields.swap(0, 2);
                }
                vec![
                    Stmt { text: format!("struct {sname} {{ first: {av}, second: {aw}, third: {au} }}"), defines: vec![(sname.clone(), None)], dim: None, prints: 0 },
                    Stmt { text: format!("let {inst} = {sname} {{ {} }}", fields.join(", ")), defines: vec![(inst.clone(), None)], dim: None, prints: 0 },
                    Stmt { text: format!("let {q1} = {inst}.first"), defines: vec![(q1, Some(v.clone()))], dim: Some(v), prints: 0 },
                    Stmt { text: format!("let {q2} = {inst}.second"), defines: vec![(q2, Some(w.clone()))], dim: Some(w), prints: 0 },
                    Stmt { text: format!("let {q3} = {inst}.third"), defines: vec![(q3, Some(u.clone()))], dim: Some(u), prints: 0 },
                ]
            }
            TIns::List { dim, seed } => {
                let v = vec_of(*dim, 0);
                let mut r = Rng(*seed as u64);
                let n = 2 + r.below(3);
                let mut elems = vec![];
                for i in 0..n {
                    let e = self.expr_inner(&v, &mut r, 1);
                    elems.push(if i > 0 { self.site(e) } else { e });
                }
                let l = self.fresh("l");
                let q = self.fresh("q");
                self.features.struct_or_list = true;
                self.shapes.push((l.clone(), Shape::List(v.clone())));
                self.vars.push((q.clone(), v.clone()));
                let f = ["head({l})", "sum({l})", "maximum({l})", "head(tail({l}))", "element_at(0, reverse({l}))", "head(sort({l}))"][r.below(6)].replace("{l}", &l);
                vec![
                    Stmt { text: format!("let {l} = [{}]", elems.join(", ")), defines: vec![(l.clone(), None)], dim: None, prints: 0 },
                    Stmt { text: format!("let {q} = {f}"), defines: vec![(q, Some(v.clone()))], dim: Some(v), prints: 0 },
                ]
            }
            TIns::UserDim { seed } => {
                let mut r = Rng(*seed as u64);
                let d = self.fresh("UDim");
                let u = self.fresh("ubase");
                let du = self.fresh("uderived");
                let dv = DimVec::single(&d);
                self.user_units.push((u.clone(), dv.clone()));
                self.features.derived_dimension = true;
                let k = 2 + r.below(8);
                let q = self.fresh("q");
                let v = dv.mul(&DimVec::single("Length").pow(Rat::int(-1)));
                self.vars.push((q.clone(), v.clone()));
                vec![
                    Stmt { text: format!("dimension {d}"), defines: vec![(d.clone(), None)], dim: None, prints: 0 },
                    Stmt { text: format!("unit {u}: {d}"), defines: vec![(u.clone(), None)], dim: None, prints: 0 },
                    Stmt { text: format!("unit {du}: {d} = {k} {u}"), defines: vec![(du.clone(), None)], dim: None, prints: 0 },
                    Stmt { text: format!("let {q} = (3 {du} + 4 {u}) / (2 metre)"), defines: vec![(q, Some(v.clone()))], dim: Some(v), prints: 0 },
                ]
            }
            TIns::Compare { dim, seed } => {
                let v = vec_of(*dim, 0);
                let mut r = Rng(*seed as u64);
                let c = self.bool_expr(&mut r, 2);
                let a = self.expr_inner(&v, &mut r, 2);
                let b = self.expr_inner(&v, &mut r, 2);
                let b = self.site(b);
                let q = self.fresh("q");
                self.vars.push((q.clone(), v.clone()));
                vec![Stmt { text: format!("let {q} = if {c} then {a} else {b}"), defines: vec![(q, Some(v.clone()))], dim: Some(v), prints: 0 }]
            }
            TIns::Print { dim, seed } => {
                let v = vec_of(*dim, 0);
                let mut r = Rng(*seed as u64);
                let e = self.expr_inner(&v, &mut r, 2);
                vec![Stmt { text: format!("print({e})"), defines: vec![], dim: None, prints: 1 }]
            }
            TIns::Assert { dim, seed } => {
                let v = vec_of(*dim, 0);
                let mut r = Rng(*seed as u64);
                let a = self.expr_inner(&v, &mut r, 1);
                let b = self.site(a.clone());
                vec![Stmt { text: format!("assert_eq({a}, {b})"), defines: vec![], dim: None, prints: 0 }]
            }
            TIns::ShadowUnit { dim, which, seed } => {
                let v = vec_of(*dim, 0);
                let mut r = Rng(*seed as u64);
                let (param, prefixed, unit_dim) = [("m", "km", "Length"), ("s", "ms", "Time"), ("g", "kg", "Mass")][*which as usize % 3];
                let out = v.mul(&DimVec::single(unit_dim));
                let name = self.fresh("su");
                let pa = self.annotation_inner(&v, &mut r);
                let arg = self.expr_inner(&v, &mut r, 2);
                let arg = self.site(arg);
                let q = self.fresh("q");
                let k = 2 + r.below(7);
                self.vars.push((q.clone(), out.clone()));
                self.features.generic_instantiations += 0;
                self.features.composite_exponent = true;
                // three shapes: a parameter named like the unit next to the prefixed unit; a where-local
                // named like the unit, defined *after* a local that uses the unit; a where-local defined
                // through the unit of its own name
                let def = match (*which as usize / 3) % 3 {
                    0 => format!("fn {name}({param}: {pa}) = {param} * ({k} {prefixed})"),
                    1 => format!("fn {name}(su_x: {pa}) = su_y * {param} where su_y = su_x * (3 {param}) and {param} = {k}"),
                    _ => format!("fn {name}(su_x: {pa}) = su_x * {param} where {param} = {k} {param}"),
                };
                vec![
                    // the return type is left to inference: the body's type must come out right
                    Stmt { text: def, defines: vec![(name.clone(), None)], dim: None, prints: 0 },
                    Stmt { text: format!("let {q} = {name}({arg})"), defines: vec![(q, Some(out.clone()))], dim: Some(out), prints: 0 },
                ]
            }
            TIns::SecondBaseUnit { seed } => {
                let mut r = Rng(*seed as u64);
                if !self.allow_known_classes || !r.chance(1, 8) {
                    return self.render(&TIns::Let { dim: [1, 0, 0], half: 0, seed: *seed, annotate: 1 });
                }
                self.features.second_base_unit = true;
                let u = self.fresh("bsecond");
                let q = self.fresh("q");
                let v = DimVec::single("Length");
                self.vars.push((q.clone(), v.clone()));
                vec![
                    Stmt { text: format!("unit {u}: Length"), defines: vec![(u.clone(), None)], dim: None, prints: 0 },
                    Stmt { text: format!("let {q} = 3 {u} + 2 metre"), defines: vec![(q, Some(v.clone()))], dim: Some(v), prints: 0 },
                ]
            }
            TIns::GenericStruct { dim, seed } => {
                let v = vec_of(*dim, 0);
                let mut r = Rng(*seed as u64);
                let mut w = self.random_vec(&mut r);
                if w == v {
                    w = w.mul(&DimVec::single("Time"));
                }
                let sname = self.fresh("GSt");
                let fname = self.fresh("gsf");
                let inst = self.fresh("s");
                let (q1, q2) = (self.fresh("q"), self.fresh("q"));
                let (ev, ew) = (self.expr_inner(&v, &mut r, 2), self.expr_inner(&w, &mut r, 2));
                self.features.struct_or_list = true;
                self.features.generic_instantiations += 2;
                // three shapes of the generic function: swap, duplicate-first, rotate through a product
                let (ret, body, d1, d2) = match r.below(3) {
                    0 => (format!("{sname}<B, A>"), format!("{sname} {{ first: p.second, second: p.first }}"), w.clone(), v.clone()),
                    1 => (format!("{sname}<B, B>"), format!("{sname} {{ first: p.second, second: p.second }}"), w.clone(), w.clone()),
                    _ => (format!("{sname}<A * B, A>"), format!("{sname} {{ first: p.first * p.second, second: p.first }}"), v.mul(&w), v.clone()),
                };
                self.shapes.push((inst.clone(), Shape::Struct(vec![("first".into(), d1.clone()), ("second".into(), d2.clone())])));
                self.vars.push((q1.clone(), d1.clone()));
                self.vars.push((q2.clone(), d2.clone()));
                vec![
                    Stmt { text: format!("struct {sname}<A: Dim, B: Dim> {{ first: A, second: B }}"), defines: vec![(sname.clone(), None)], dim: None, prints: 0 },
                    Stmt { text: format!("fn {fname}<A: Dim, B: Dim>(p: {sname}<A, B>) -> {ret} = {body}"), defines: vec![(fname.clone(), None)], dim: None, prints: 0 },
                    Stmt { text: format!("let {inst} = {fname}({sname} {{ second: {ew}, first: {ev} }})"), defines: vec![(inst.clone(), None)], dim: None, prints: 0 },
                    Stmt { text: format!("let {q1} = {inst}.first"), defines: vec![(q1, Some(d1.clone()))], dim: Some(d1), prints: 0 },
                    Stmt { text: format!("let {q2} = {inst}.second"), defines: vec![(q2, Some(d2.clone()))], dim: Some(d2), prints: 0 },
                ]
            }
            TIns::Redefine { var, dim, seed } => {
                let globals: Vec<(String, DimVec)> = self.vars.iter().filter(|(n, _)| n.starts_with("q_")).cloned().collect();
                if globals.is_empty() {
                    return self.render(&TIns::Let { dim: *dim, half: 0, seed: *seed, annotate: 1 });
                }
                let (name, old) = globals[crate::gen_util::pick_idx(*var, globals.len())].clone();
                let mut v = vec_of(*dim, 0);
                if v == old {
                    v = v.mul(&DimVec::single("Length"));
                }
                let mut r = Rng(*seed as u64);
                // the new value may mention the old one
                let e = self.expr_inner(&v, &mut r, 2);
                self.vars.retain(|(n, _)| n != &name);
                self.vars.push((name.clone(), v.clone()));
                self.features.redefinition = true;
                let f = self.fresh("rf");
                let q = self.fresh("q");
                let ann = self.annotation_inner(&v, &mut r);
                let k = 2 + r.below(7);
                self.vars.push((q.clone(), v.clone()));
                let body = self.site(format!("kk_param * {name}"));
                vec![
                    Stmt { text: format!("let {name} = {e}"), defines: vec![(name.clone(), Some(v.clone()))], dim: Some(v.clone()), prints: 0 },
                    Stmt { text: format!("fn {f}(kk_param: Scalar) -> {ann} = {body}"), defines: vec![(f.clone(), None)], dim: None, prints: 0 },
                    Stmt { text: format!("let {q} = {f}({k})"), defines: vec![(q, Some(v.clone()))], dim: Some(v), prints: 0 },
                ]
            }
        }
    }
}

//! C12 — addition commutes and subtraction anti-commutes, units included.

use super::pairs::*;
use crate::engine::*;
use crate::refmodel::units::*;
use crate::session::*;
use crate::PropDef;
use numbat::verif_hooks::{VQuantity, VValue};
use serde_json::{Value as J, json};

pub fn def() -> PropDef {
    PropDef {
        id: "C12",
        run,
        replay,
    }
}

#[derive(Clone, Debug)]
struct Case {
    a_src: String,
    b_src: String,
    c_src: Option<String>,
    kind: String,
}

fn case_json(c: &Case) -> J {
    json!({"a": c.a_src, "b": c.b_src, "c": c.c_src, "kind": c.kind})
}

fn case_from(j: &J) -> Case {
    Case {
        a_src: j["a"].as_str().unwrap_or("1").into(),
        b_src: j["b"].as_str().unwrap_or("1").into(),
        c_src: j["c"].as_str().map(String::from),
        kind: j["kind"].as_str().unwrap_or("").into(),
    }
}

fn raw_q(ctx: &numbat::Context, name: &str) -> Result<VQuantity, Failure> {
    match ctx.verif_raw_global(name) {
        Some(VValue::Quantity(q)) => Ok(q),
        other => Err(Failure::new("harness", format!("{name} is not a quantity: {other:?}"))),
    }
}

fn check(c: &Case, st: &mut Stats) -> CheckResult {
    st.eval();
    let cat = prelude_catalogue();
    let mut ctx = prelude();
    let mut code = format!("let xx_a = {}\nlet xx_b = {}\n", c.a_src, c.b_src);
    if let Some(cs) = &c.c_src {
        code.push_str(&format!("let xx_c = {cs}\n"));
        let orders = [
            "xx_a + xx_b + xx_c",
            "xx_a + xx_c + xx_b",
            "xx_b + xx_a + xx_c",
            "xx_b + xx_c + xx_a",
            "xx_c + xx_a + xx_b",
            "xx_c + xx_b + xx_a",
            "xx_a + (xx_b + xx_c)",
            "(xx_c + xx_a) + xx_b",
        ];
        for (i, o) in orders.iter().enumerate() {
            code.push_str(&format!("let xx_s{i} = {o}\n"));
        }
        let o = eval(&mut ctx, &code);
        if let Some((loc, msg)) = &o.panic {
            return Err(Failure::new(format!("panic:{loc}"), format!("{code}: panic {msg}")));
        }
        if !o.ok() {
            return Err(Failure::new("sum-input-fails", format!("{} for\n{code}", o.summary())));
        }
        let pa = cat.physical(&raw_q(&ctx, "xx_a")?).unwrap();
        let pb = cat.physical(&raw_q(&ctx, "xx_b")?).unwrap();
        let pc = cat.physical(&raw_q(&ctx, "xx_c")?).unwrap();
        let want = pa.mag + pb.mag + pc.mag;
        let scale = pa.mag.abs().max(pb.mag.abs()).max(pc.mag.abs());
        for i in 0..orders.len() {
            let q = raw_q(&ctx, &format!("xx_s{i}"))?;
            let p = cat.physical(&q).ok_or_else(|| Failure::new("harness", "unknown unit"))?;
            if p.vec != pa.vec || (p.mag - want).abs() > 1e-9 * scale {
                return Err(Failure::new(
                    "three-operand-sum",
                    format!(
                        "`{}` denotes {} (base units) but the operands sum to {want}; a = {}, b = {}, c = {}",
                        orders[i], p.mag, c.a_src, c.b_src, c.c_src.as_ref().unwrap()
                    ),
                ));
            }
        }
        st.label("three-operands");
        st.nontrivial_with_sample(hash_str(&code), || {
            json!({"a": c.a_src, "b": c.b_src, "c": c.c_src, "sum_base_units": want})
        });
        return Ok(());
    }
    code.push_str("let xx_s1 = xx_a + xx_b\nlet xx_s2 = xx_b + xx_a\nlet xx_d1 = xx_a - xx_b\nlet xx_d2 = xx_b - xx_a\n");
    let o = eval(&mut ctx, &code);
    if let Some((loc, msg)) = &o.panic {
        return Err(Failure::new(format!("panic:{loc}"), format!("{code}: panic {msg}")));
    }
    if !o.ok() {
        return Err(Failure::new("sum-input-fails", format!("{} for\n{code}", o.summary())));
    }
    let (qa, qb) = (raw_q(&ctx, "xx_a")?, raw_q(&ctx, "xx_b")?);
    let (s1, s2, d1, d2) = (
        raw_q(&ctx, "xx_s1")?,
        raw_q(&ctx, "xx_s2")?,
        raw_q(&ctx, "xx_d1")?,
        raw_q(&ctx, "xx_d2")?,
    );
    let ph = |q: &VQuantity| cat.physical(q).ok_or_else(|| Failure::new("harness", "unknown unit"));
    let (pa, pb) = (ph(&qa)?, ph(&qb)?);
    let (ps1, ps2, pd1, pd2) = (ph(&s1)?, ph(&s2)?, ph(&d1)?, ph(&d2)?);
    let scale = pa.mag.abs().max(pb.mag.abs());
    let tol = 1e-12 * scale;
    let desc = format!("a = {}, b = {}", c.a_src, c.b_src);
    for (name, p) in [("a+b", &ps1), ("b+a", &ps2), ("a-b", &pd1), ("b-a", &pd2)] {
        if p.vec != pa.vec {
            return Err(Failure::new("dimension-changed", format!("`{name}` has base units {} but a has {}; {desc}", p.vec, pa.vec)));
        }
    }
    if (ps1.mag - ps2.mag).abs() > tol {
        return Err(Failure::new(
            "add-not-commutative",
            format!("a+b = {} but b+a = {} in base units; {desc}", ps1.mag, ps2.mag),
        ));
    }
    if (ps1.mag - (pa.mag + pb.mag)).abs() > 1e-9 * scale {
        return Err(Failure::new(
            "add-wrong-value",
            format!("a+b = {} in base units, reference {}; {desc}", ps1.mag, pa.mag + pb.mag),
        ));
    }
    if (pd1.mag + pd2.mag).abs() > tol {
        return Err(Failure::new(
            "sub-not-anticommutative",
            format!("a-b = {} but b-a = {} in base units; {desc}", pd1.mag, pd2.mag),
        ));
    }
    if (pd1.mag - (pa.mag - pb.mag)).abs() > 1e-9 * scale {
        return Err(Failure::new(
            "sub-wrong-value",
            format!("a-b = {} in base units, reference {}; {desc}", pd1.mag, pa.mag - pb.mag),
        ));
    }
    // display clause
    let (_, fa) = cat.unit_of_factors(&qa.factors).unwrap();
    let (_, fb) = cat.unit_of_factors(&qb.factors).unwrap();
    let differ_in_size = !rel_close(fa, fb, 1e-9);
    let both_zero = qa.value == 0.0 && qb.value == 0.0;
    if qa.value == 0.0 || qb.value == 0.0 {
        st.label(if both_zero { "both-zero" } else { "one-operand-zero" });
    }
    if !differ_in_size && qa.factors != qb.factors {
        st.label("equal-size-different-name (display clause exempt)");
    }
    if differ_in_size && !both_zero {
        if s1.factors != s2.factors || s1.value.to_bits() != s2.value.to_bits() && s1.value != s2.value {
            return Err(Failure::new(
                "sum-display-depends-on-order",
                format!(
                    "a+b is {} {} but b+a is {} {}; {desc}",
                    s1.value, s1.unit_display, s2.value, s2.unit_display
                ),
            ));
        }
        if d1.factors != d2.factors || d1.value != -d2.value {
            return Err(Failure::new(
                "difference-display-depends-on-order",
                format!(
                    "a-b is {} {} but b-a is {} {}; {desc}",
                    d1.value, d1.unit_display, d2.value, d2.unit_display
                ),
            ));
        }
        // the displayed (simplified) texts
        let t1 = eval(&mut ctx, "xx_a + xx_b").result_text;
        let t2 = eval(&mut ctx, "xx_b + xx_a").result_text;
        if t1.is_none() || t1 != t2 {
            return Err(Failure::new(
                "sum-display-depends-on-order",
                format!("a+b displays {t1:?}, b+a displays {t2:?}; {desc}"),
            ));
        }
        st.label("display-clause-checked");
        st.nontrivial_with_sample(hash_str(&code), || {
            json!({"a": c.a_src, "b": c.b_src, "a+b": t1, "kind": c.kind})
        });
    }
    st.label(&format!("kind:{}", c.kind));
    Ok(())
}

fn build_cases(cfg: &Cfg) -> Vec<Case> {
    let cat = prelude_catalogue();
    let mut cases = vec![];
    let reps = cfg.tier.pick(12u64, 60u64);
    for (pi, (ua, ub)) in cat.same_dimension_pairs().into_iter().enumerate() {
        for rep in 0..reps {
            let salt = splitmix64(cfg.seed ^ 0xC12 ^ (pi as u64) << 8 ^ rep);
            let sa = spelling(&cat, ua, salt);
            let sb = spelling(&cat, ub, splitmix64(salt));
            let x = pseudo_mag(salt ^ 1);
            // choose b within a few orders of magnitude of a (in physical terms) so that both
            // operands matter, but never a near-cancellation: |b| differs from |a| by >= factor 2
            let ratio = [2.0, 0.5, 7.5, 0.01, 100.0, 3.0][(splitmix64(salt ^ 2) % 6) as usize];
            let y = x * sa.factor / sb.factor * ratio;
            let (sx, sy) = match splitmix64(salt ^ 3) % 4 {
                0 => (-1.0, 1.0),
                1 => (1.0, -1.0),
                2 => (-1.0, -1.0),
                _ => (1.0, 1.0),
            };
            let a = format!("{} {}", lit(sx * x), sa.ident);
            let b = format!("{} {}", lit(sy * y), sb.ident);
            if y.is_finite() && y != 0.0 {
                cases.push(Case { a_src: a.clone(), b_src: b.clone(), c_src: None, kind: "generic".into() });
            }
            match splitmix64(salt ^ 4) % 5 {
                0 => cases.push(Case { a_src: format!("0 {}", sa.ident), b_src: b.clone(), c_src: None, kind: "zero-left".into() }),
                1 => cases.push(Case { a_src: a.clone(), b_src: format!("0 {}", sb.ident), c_src: None, kind: "zero-right".into() }),
                2 => cases.push(Case { a_src: format!("0 {}", sa.ident), b_src: format!("0 {}", sb.ident), c_src: None, kind: "both-zero".into() }),
                3 => {
                    // equal and opposite (up to rounding of the reference conversion)
                    let yo = -(sx * x) * sa.factor / sb.factor;
                    if yo.is_finite() && yo != 0.0 {
                        cases.push(Case { a_src: a.clone(), b_src: format!("{} {}", lit(yo), sb.ident), c_src: None, kind: "opposite".into() });
                    }
                }
                _ => {
                    // compound units on both sides: multiply both by the same other unit
                    let other = (splitmix64(salt ^ 5) % cat.units.len() as u64) as usize;
                    let so = spelling(&cat, other, salt ^ 6);
                    if y.is_finite() && y != 0.0 {
                        cases.push(Case {
                            a_src: format!("{} {} / {}", lit(sx * x), sa.ident, so.ident),
                            b_src: format!("{} {} / {}", lit(sy * y), sb.ident, so.ident),
                            c_src: None,
                            kind: "compound".into(),
                        });
                    }
                }
            }
            // three operands: a third unit of the same group if there is one
            if splitmix64(salt ^ 7) % 3 == 0 {
                let group = cat.groups.iter().find(|g| g.contains(&ua)).unwrap();
                let uc = group[(splitmix64(salt ^ 8) % group.len() as u64) as usize];
                let sc = spelling(&cat, uc, salt ^ 9);
                let z = x * sa.factor / sc.factor * [3.0, 0.25, 11.0][(splitmix64(salt ^ 10) % 3) as usize];
                if y.is_finite() && y != 0.0 && z.is_finite() && z != 0.0 {
                    cases.push(Case {
                        a_src: a.clone(),
                        b_src: format!("{} {}", lit(y), sb.ident),
                        c_src: Some(format!("{} {}", lit(z), sc.ident)),
                        kind: "three".into(),
                    });
                }
            }
        }
    }
    cases
}

fn run(cfg: &Cfg) -> Report {
    let mut rep = Report::new(
        cfg,
        "all ordered pairs of same-dimension prelude units (complete enumeration; seed-dependent alias/prefix spelling) with magnitudes of both signs whose physical sizes differ by a factor >= 2 (no cancellation), zero operands, equal-and-opposite operands, compound units, and three-operand sums in 8 orders/groupings. Oracle: raw a+b vs b+a and a-b vs -(b-a) agree physically (1e-12 of the larger operand) and with the RefDim sum (1e-9); when the units differ in size and not both operands are zero the two orders have the identical unit factor list, identical value and identical displayed text. non-trivial = units differ in size (display clause applies) or three operands; distinct = source text",
    );
    let cases = build_cases(cfg);
    rep.exhaustive = Some(true);
    rep.extra("exhaustive_over", json!("ordered same-dimension unit pairs (magnitudes are sampled)"));
    rep.absorb(run_enumerated(cfg, "pairs", &cases, case_json, check));
    rep
}

fn replay(_sub: &str, case: &J) -> CheckResult {
    check(&case_from(case), &mut Stats::default())
}

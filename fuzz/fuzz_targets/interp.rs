//! libFuzzer target for C08: any text, in one of three sessions, must end in a result or a
//! rendered error. The oracle is `nbv::props::c08::fuzz_bytes` (the one the proptest check uses);
//! panics listed as known findings are tolerated so that the campaign does not rediscover one
//! crash forever, anything else aborts and leaves the input as an artifact.
//!
//! The oracle runs on one long-lived worker thread with a large stack (deep but bounded nesting
//! must not overflow) — long-lived because the harness caches the prelude session per thread.
#![no_main]
use libfuzzer_sys::fuzz_target;
use std::sync::mpsc::{Receiver, Sender, channel};
use std::sync::{Mutex, OnceLock};

type Verdict = Result<(), (String, String)>;

fn worker() -> &'static Mutex<(Sender<Vec<u8>>, Receiver<Verdict>)> {
    static W: OnceLock<Mutex<(Sender<Vec<u8>>, Receiver<Verdict>)>> = OnceLock::new();
    W.get_or_init(|| {
        // libfuzzer-sys installs an aborting panic hook; the harness catches panics itself
        nbv::engine::install_panic_hook();
        let (tx_in, rx_in) = channel::<Vec<u8>>();
        let (tx_out, rx_out) = channel::<Verdict>();
        std::thread::Builder::new()
            .stack_size(512 * 1024 * 1024)
            .spawn(move || {
                while let Ok(data) = rx_in.recv() {
                    let v = match nbv::props::c08::fuzz_bytes(&data, &mut nbv::engine::Stats::default()) {
                        Ok(()) => Ok(()),
                        Err(f) => {
                            if nbv::engine::known().matches("C08", &f.signature).is_some() {
                                Ok(())
                            } else {
                                Err((f.signature, f.what))
                            }
                        }
                    };
                    if tx_out.send(v).is_err() {
                        break;
                    }
                }
            })
            .expect("worker thread");
        Mutex::new((tx_in, rx_out))
    })
}

fuzz_target!(|data: &[u8]| {
    let w = worker().lock().unwrap();
    w.0.send(data.to_vec()).expect("worker alive");
    match w.1.recv() {
        Ok(Ok(())) => {}
        Ok(Err((signature, what))) => {
            eprintln!("NBV-FUZZ-FAILURE signature={signature} what={what}");
            std::process::abort();
        }
        Err(_) => {
            eprintln!("NBV-FUZZ-FAILURE signature=harness what=oracle thread died");
            std::process::abort();
        }
    }
});

//! C06 — a failing input leaves the session unchanged.

use super::c17::session_digest;
use super::sessgen::*;
use crate::engine::*;
use crate::session::*;
use crate::PropDef;
use proptest::prelude::*;
use serde::{Deserialize, Serialize};
use serde_json::{Value as J, json};
use std::collections::BTreeMap;

pub fn def() -> PropDef {
    PropDef {
        id: "C06",
        run,
        replay,
    }
}

#[derive(Clone, Debug, Serialize, Deserialize)]
pub struct Input {
    pub pre: Vec<Ins>,
    pub fail: Option<Fail>,
    pub post: Vec<Ins>,
    /// 1..=3: wrap a failing input into an `ans` probe (an expression before it, an
    /// expression in front of the failing statement, a use of `ans` after it)
    #[serde(default)]
    pub probe: u8,
}

#[derive(Clone, Debug, Serialize, Deserialize)]
pub struct Session {
    pub inputs: Vec<Input>,
}

fn input_strategy() -> impl Strategy<Value = Input> {
    (
        proptest::collection::vec(ins_strategy(), 0..4),
        proptest::option::weighted(0.45, fail_strategy()),
        proptest::collection::vec(ins_strategy(), 0..2),
        0u8..12,
    )
        .prop_map(|(pre, fail, post, probe)| Input { pre, fail, post, probe })
}

fn session_strategy() -> impl Strategy<Value = Session> {
    proptest::collection::vec(input_strategy(), 3..14).prop_map(|inputs| Session { inputs })
}

/// Rendered session: per input the source text, whether it is meant to fail, and the names it
/// mentions (defined in it), plus modules it imports.
struct Rendered {
    inputs: Vec<(String, Option<&'static str>, Vec<String>, Vec<String>)>,
}

fn render(s: &Session) -> Rendered {
    let mut env = Env::default();
    let mut out = vec![];
    for inp in &s.inputs {
        let probe = if inp.fail.is_some() && (1..=3).contains(&inp.probe) { Some(ans_probe(&mut env, inp.probe)) } else { None };
        if let Some((before, _, _)) = &probe {
            out.push((before.clone(), None, vec![], vec![]));
        }
        let before_names = env.all_names();
        let before_modules = env.modules.clone();
        let mut work = env.clone();
        let mut lines = vec![];
        // (probes 1 and 2: the failing input consists of expressions only)
        if !matches!(inp.probe, 1 | 2) || probe.is_none() {
            for i in &inp.pre {
                lines.push(render_ins(i, &mut work));
            }
        }
        let mut stage = None;
        if let Some((_, inside, _)) = &probe {
            lines.push(inside.clone());
        }
        if let Some(f) = inp.fail {
            let (text, st) = render_fail(f, &mut work);
            lines.push(text);
            stage = Some(st);
            for i in &inp.post {
                lines.push(render_ins(i, &mut work));
            }
        } else if inp.pre.is_empty() {
            lines.push("1 + 1".to_string());
            // the filler is an expression: `ans` is a plain number from here on
            work.ans = Some(Ty::Scalar);
        }
        let names: Vec<String> = work.all_names().into_iter().filter(|n| !before_names.contains(n)).collect();
        let modules: Vec<String> = work.modules.iter().filter(|m| !before_modules.contains(m)).cloned().collect();
        if inp.fail.is_none() {
            env = work;
        } else {
            // the failing input's definitions are rolled back; keep the counter so that names
            // stay unique across the session
            env.counter = work.counter;
        }
        out.push((lines.join("\n"), stage, names, modules));
        if let Some((_, _, after)) = &probe {
            out.push((after.clone(), None, vec![], vec![]));
            env.vars.push((after.split_whitespace().nth(1).unwrap_or("").to_string(), Ty::Scalar));
        }
    }
    Rendered { inputs: out }
}

fn outcome_key(o: &Outcome) -> String {
    format!(
        "result={:?} prints={:?} error={:?}",
        o.result_text,
        o.prints,
        o.error.as_ref().map(|e| (format!("{:?}", e.stage), e.kind.clone()))
    )
}

fn diff(a: &BTreeMap<String, String>, b: &BTreeMap<String, String>) -> Option<String> {
    for (k, v) in a {
        match b.get(k) {
            None => return Some(format!("`{k}` exists only in the session that saw the failing input")),
            Some(w) if w != v => return Some(format!("`{k}` differs: {v} vs {w}")),
            _ => {}
        }
    }
    for k in b.keys() {
        if !a.contains_key(k) {
            return Some(format!("`{k}` is missing in the session that saw the failing input"));
        }
    }
    None
}

fn check(s: &Session, st: &mut Stats) -> CheckResult {
    st.eval();
    let r = render(s);
    let mut a = prelude();
    let mut b = prelude();
    // sessions with a failing input that mentions a currency run with on-demand loading of the
    // currency module, as the command-line tool does (exchange rates: numbat's test rates)
    let on_demand = r.inputs.iter().any(|i| i.1.is_some() && i.3.iter().any(|m| m == "units::currencies"));
    if on_demand {
        a.load_currency_module_on_demand(true);
        b.load_currency_module_on_demand(true);
        st.label("on-demand-currency-loading");
    }
    let mut history: Vec<String> = vec![];
    let mut failed_names: Vec<String> = vec![];
    let mut failed_modules: Vec<String> = vec![];
    let mut nontrivial_failure = false;
    let mut later_success_after_failure = false;
    for (idx, (src, stage, names, modules)) in r.inputs.iter().enumerate() {
        history.push(src.clone());
        let oa = eval(&mut a, src);
        if let Some((loc, msg)) = &oa.panic {
            return Err(Failure::new(format!("panic:{loc}"), format!("input {idx} `{src}` panicked at {loc}: {msg}")));
        }
        let ctx_desc = || format!("history:\n---\n{}\n---", history.join("\n---\n"));
        match stage {
            Some(stage) => {
                // the failing input itself is a "later input" with respect to the failing inputs
                // before it: on a copy of the session that never saw those it must fail in the
                // same way (the copy is thrown away, so B still never sees a failing input)
                let ob = eval(&mut b.clone(), src);
                if outcome_key(&oa) != outcome_key(&ob) {
                    return Err(Failure::new(
                        "later-input-behaves-differently",
                        format!(
                            "the failing input {idx} `{}` gives {} after earlier failing inputs but {} without them; {}",
                            src.replace('\n', "; "), oa.summary(), ob.summary(), ctx_desc()
                        ),
                    ));
                }
                if oa.ok() {
                    return Err(Failure::new("harness", format!("input {idx} was meant to fail ({stage}) but succeeded: {src}")));
                }
                st.label(&format!("fails-at:{stage}"));
                if src.lines().count() > 1 {
                    st.label("failing-input-with-earlier-statements");
                    nontrivial_failure = true;
                }
                if !modules.is_empty() {
                    st.label("failing-input-with-import");
                }
                failed_names.extend(names.iter().cloned());
                if !failed_names.iter().any(|n| n == "zz_bad") {
                    failed_names.push("zz_bad".to_string());
                }
                failed_modules.extend(modules.iter().cloned());
                if on_demand && session_digest(&a).contains_key("fn:exchange_rate") && !session_digest(&b).contains_key("fn:exchange_rate") {
                    // loading on demand is a cache: the module stays loaded after the failing input,
                    // and in the session that never saw that input it would be loaded by the first
                    // input that needs it. Load it there explicitly, so that both sessions are
                    // compared in the state "currency module loaded".
                    let _ = eval(&mut b, "use units::currencies");
                }
            }
            None => {
                let ob = eval(&mut b, src);
                if outcome_key(&oa) != outcome_key(&ob) {
                    return Err(Failure::new(
                        "later-input-behaves-differently",
                        format!(
                            "input {idx} `{}` gives {} after failing inputs but {} without them; {}",
                            src.replace('\n', "; "), oa.summary(), ob.summary(), ctx_desc()
                        ),
                    ));
                }
                if !oa.ok() {
                    // a generated "successful" input that fails in both sessions: generator issue
                    st.label("unexpected-failure-in-both");
                }
                if !failed_names.is_empty() || !failed_modules.is_empty() {
                    later_success_after_failure = true;
                }
            }
        }
        // after every step both sessions define the same things with the same values
        let (da, db) = (session_digest(&a), session_digest(&b));
        if let Some(d) = diff(&da, &db) {
            return Err(Failure::new(
                "session-state-differs",
                format!("after input {idx} `{}`: {d}; {}", src.replace('\n', "; "), ctx_desc()),
            ));
        }
    }
    // probes: every name defined inside a failed input must be unknown in both, every module
    // imported inside a failed input must import with the same effect
    for n in &failed_names {
        let (pa, pb) = (eval(&mut a, n), eval(&mut b, n));
        if outcome_key(&pa) != outcome_key(&pb) {
            return Err(Failure::new(
                "name-from-failed-input-visible",
                format!("probe `{n}` gives {} vs {}; history:\n{}", pa.summary(), pb.summary(), history.join("\n---\n")),
            ));
        }
    }
    for m in &failed_modules {
        let (pa, pb) = (eval(&mut a, &format!("use {m}")), eval(&mut b, &format!("use {m}")));
        if outcome_key(&pa) != outcome_key(&pb) {
            return Err(Failure::new("module-import-differs", format!("`use {m}`: {} vs {}", pa.summary(), pb.summary())));
        }
        let (da, db) = (session_digest(&a), session_digest(&b));
        if let Some(d) = diff(&da, &db) {
            return Err(Failure::new(
                "module-from-failed-input-not-importable",
                format!("after `use {m}` (a module that a failed input had imported): {d}; history:\n{}", history.join("\n---\n")),
            ));
        }
        st.label("probed-module-of-failed-input");
    }
    // when a failed input had imported something, every optional module (also the dependencies
    // of the imported ones) must still import with the same effect in both sessions
    if !failed_modules.is_empty() {
        for m in EXTRA_MODULES.iter().rev() {
            let (pa, pb) = (eval(&mut a, &format!("use {m}")), eval(&mut b, &format!("use {m}")));
            if outcome_key(&pa) != outcome_key(&pb) {
                return Err(Failure::new(
                    "module-import-differs",
                    format!("`use {m}` at the end of the session: {} vs {}; history:\n{}", pa.summary(), pb.summary(), history.join("\n---\n")),
                ));
            }
        }
        let (da, db) = (session_digest(&a), session_digest(&b));
        if let Some(d) = diff(&da, &db) {
            return Err(Failure::new(
                "module-from-failed-input-not-importable",
                format!("after importing every optional module at the end of the session: {d}; history:\n{}", history.join("\n---\n")),
            ));
        }
        st.label("probed-all-optional-modules");
    }
    if nontrivial_failure && later_success_after_failure {
        st.nontrivial_with_sample(hash_str(&history.join("\n---\n")), || json!({"inputs": history}));
    }
    Ok(())
}

fn run(cfg: &Cfg) -> Report {
    let mut rep = Report::new(
        cfg,
        "proptest session histories of 3-13 inputs; an input is 0-3 successful statements (typed definitions and redefinitions of variables and functions, units, base units with new dimensions, derived dimensions, structs, imports of non-prelude modules, expressions, prints, ans/_) optionally followed by a failing statement of one of 29 kinds (unknown module, 4 parse errors, name clash with a prelude unit, reserved identifier, 4 type errors, division by zero, failed assert/assert_eq, error(), run-time error inside a called function, 3 run-time failures in inputs that define nothing, 3 clashes with a variable, function or unit the session itself defined, 6 clashes that only the type checker notices (dimension defined twice, `let` named like a prelude or session function, `fn` named like a prelude or session variable), 4 type errors in inputs that mention a currency unit — such sessions run with on-demand loading of the currency module as the CLI does, and the session that never saw the failing input imports the module explicitly at that point) and further statements; a quarter of the failing inputs are wrapped into an `ans` probe (an expression input before, an expression in front of the failing statement, a use of ans/_ in the next input). Oracle (metamorphic + invariant): the history is run on session A and, with the failing inputs deleted, on session B; every failing input fails in the same way on a throw-away copy of B; after every input the complete definition digests agree (function signatures, unit definitions, dimensions, raw values of all variables), every successful input yields the same result/prints/error kind in A and B, and at the end every name defined inside a failed input gives the same probe result in both and every module imported inside a failed input imports with the same effect. non-trivial = a failing input with earlier successful statements, followed by a later input; distinct = the rendered history",
    );
    let cases = cfg.tier.pick(500u32, 6000u32);
    rep.absorb(run_proptest(
        cfg,
        "sessions",
        cases,
        session_strategy,
        |s: &Session| json!({"session": s, "rendered": render(s).inputs.iter().map(|i| i.0.clone()).collect::<Vec<_>>()}),
        check,
    ));
    rep.require_label_fraction("failing-input-with-import", "failing-input-with-earlier-statements", 0.05);
    rep
}

fn replay(_sub: &str, case: &J) -> CheckResult {
    let s: Session = serde_json::from_value(case["session"].clone()).map_err(|e| Failure::new("harness", e.to_string()))?;
    check(&s, &mut Stats::default())
}

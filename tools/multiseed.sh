#!/bin/bash
# tools/multiseed.sh "<seeds>" [ID ...]  — run quick checks with several seeds, report anything not OK.
ROOT="$(cd "$(dirname "$0")/.." && pwd)"
SEEDS="${1:-1 2 3 4 5}"; shift
IDS="$@"; [ -z "$IDS" ] && IDS=$(ls "$ROOT"/harness/src/props/ | grep -E "^c[0-9]+\.rs$" | sed "s/\.rs//" | tr a-z A-Z)
bad=0
for id in $IDS; do
  for s in $SEEDS; do
    out=$(VERIF_SEED=$s "$ROOT/run.sh" "$id" quick 2>&1); rc=$?
    if [ $rc -ne 0 ]; then bad=1; echo "== $id seed=$s rc=$rc"; echo "$out" | grep -v "^KNOWN" | cut -c1-600 | head -8; fi
  done
  echo "$id done"
done
rm -f "$ROOT"/replays/*/fail-*.json
exit $bad

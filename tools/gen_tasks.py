#!/usr/bin/env python3
"""gen_tasks.py <round> <outdir> — writes one TASK_<ID>.md per property for the sub-agents that seed
breakages (DESIGN.md section 7, As built). A task file contains the text of the property (title, statement,
quantifier from properties.jsonl), pointers into the numbat sources, the mechanisms earlier rounds already
used (so that the new change is a different one) and the deliverables. Nothing from /verif's checks is
disclosed to the sub-agent."""
import json, re, sys

rnd, outdir = sys.argv[1], sys.argv[2]
props = {json.loads(l)["id"]: json.loads(l) for l in open("/verif/properties.jsonl")}
meta_src = open("/verif/tools/write_meta.py").read()
extra = json.load(open("/verif/seeded/extra_meta.json"))

WHERE = {
 "C01": "numbat/src/typechecker/, numbat/src/vm.rs, numbat/src/quantity.rs, numbat/src/ffi/ (built-ins returning quantities), numbat/src/bytecode_interpreter.rs",
 "C02": "numbat/src/typechecker/ (mod.rs, constraints.rs, substitutions.rs, const_evaluation.rs, type_scheme.rs), numbat/src/typed_ast.rs (DType), numbat/src/dimension.rs, registry.rs",
 "C03": "numbat/src/quantity.rs, unit.rs, prefix.rs, number.rs, arithmetic.rs, product.rs, vm.rs",
 "C04": "numbat/src/quantity.rs (convert_to), unit.rs, vm.rs (Op::ConvertTo), value.rs (display of quantities)",
 "C05": "numbat/src/quantity.rs (full_simplify*), unit_registry.rs, vm.rs (print, string interpolation, results)",
 "C06": "numbat/src/lib.rs (Context::interpret_with_settings and its rollback), resolver.rs, prefix_transformer.rs, prefix_parser.rs, typechecker/ (environment, registries), bytecode_interpreter.rs, vm.rs",
 "C07": "numbat/src/lib.rs (Context, Clone), command.rs and session_history.rs (`save`), bytecode_interpreter.rs, vm.rs, prefix_transformer.rs, typechecker/",
 "C08": "anything under numbat/src/ reachable from text input: parser.rs, typechecker/, bytecode_interpreter.rs, vm.rs, ffi/*.rs (built-ins), diagnostic.rs, span.rs, datetime.rs, number.rs",
 "C09": "numbat/src/bytecode_interpreter.rs (compiler), vm.rs, prefix_transformer.rs (name resolution), ffi/lists.rs, ffi/strings.rs",
 "C10": "numbat/src/tokenizer.rs, numbat/src/parser.rs (grammar in its header comment), book/src/basics/operations.md",
 "C11": "numbat/src/quantity.rs (PartialEq, partial_cmp_preserve_nan, convert_to), vm.rs (comparison ops), bytecode_interpreter.rs",
 "C12": "numbat/src/quantity.rs (Add/Sub impls, zero shortcuts), unit.rs (choice of the result unit), vm.rs",
 "C13": "numbat/src/prefix_parser.rs, prefix_transformer.rs, prefix.rs, decorator.rs, parser.rs (decorators), unit.rs (output), numbat/modules/units/*.nbt",
 "C14": "numbat/src/number.rs (pretty_print*), value.rs/quantity.rs/lib.rs (FormatOptions), tokenizer.rs (numeric literals)",
 "C15": "numbat/src/typed_ast.rs (PrettyPrint impls), pretty_print.rs, decorator.rs, markup.rs, typechecker/type_scheme.rs",
 "C16": "numbat/src/typechecker/ (mod.rs, constraints.rs, substitutions.rs, type_scheme.rs, qualified_type.rs, name_generator.rs), typed_ast.rs (type printing)",
 "C17": "numbat/modules/**/*.nbt, numbat/src/resolver.rs, module_importer.rs, lib.rs",
 "C18": "numbat/src/list.rs, numbat/src/ffi/lists.rs",
 "C19": "numbat/src/vm.rs (DateTime ops), datetime.rs, ffi/datetime.rs, numbat/modules/datetime/*.nbt",
 "C20": "numbat/src/html_formatter.rs (feature html-formatter), markup.rs, value.rs, diagnostic.rs; numbat-wasm/src/lib.rs shows the usage",
 "C21": "numbat/src/ffi/procedures.rs, value.rs, quantity.rs, vm.rs, typechecker/mod.rs",
 "C22": "numbat-cli/src/main.rs (and numbat/src if it affects the CLI contract)",
 "C23": "numbat/modules/**/*.nbt (temperature, datetime, math, mixed units), numbat/src/ffi/*.rs, parser.rs (°C/°F sugar)",
 "C24": "numbat/modules/**/*.nbt (functions with @example decorators) and the Rust code behind them",
}
DEMO = {
 "C06": "a small Rust example under numbat/examples/ driving two numbat::Context sessions (one receives the failing input, one never does) and comparing all later outcomes",
 "C07": "a small Rust example under numbat/examples/ using numbat::Context (and CommandRunner/SessionHistory for `save`) that compares incremental, joined, replayed and cloned sessions",
 "C17": "a small Rust example under numbat/examples/ (fresh numbat::Context with the builtin module importer, no prelude) or the CLI with `--no-prelude --no-config -e 'use a::b' -e 'use c::d'`",
 "C18": "a numbat program with asserts run through the CLI, or a small Rust example under numbat/examples/ driving numbat::list::NumbatList",
 "C20": "a small Rust example under numbat/examples/ (body gated with #[cfg(feature = \"html-formatter\")], run with `cargo run -q --offline -p numbat --features html-formatter --example <name>`) that renders results with HtmlFormatter and diagnostics through HtmlWriter as numbat-wasm does and checks that no < or > remains once the renderer's own span tags are removed",
 "C22": "build the CLI once (`cargo build -q -p numbat-cli --offline`) and run `$CARGO_TARGET_DIR/debug/numbat --no-config …` comparing exit status, stdout and stderr",
}
EXTRA = {
 "C01": " Do not use `quantity_cast`. Known pre-existing limitations you must not rely on: the literals 0/NaN/inf being dimension-polymorphic, exponents computed in floating point such as ^(0.1+0.2), and `ans`/`_` used inside a function body.",
 "C02": " Known pre-existing limitation you must not rely on: the literals 0, NaN and inf are dimension-polymorphic.",
 "C03": " Known pre-existing limitation you must not rely on: magnitudes that overflow/underflow f64 with extreme units (Planck units, ronna/quecto prefixes to high powers).",
 "C05": " Known pre-existing limitation you must not rely on: magnitudes that overflow/underflow f64 with extreme units (Planck units, ronna/quecto prefixes to high powers).",
 "C07": " Known pre-existing limitation you must not rely on: a value shown before a later `unit` statement of the SAME multi-statement input is already displayed in that unit.",
 "C08": " The violation must be a panic (exit status 101 / `panicked at`) or a hang, NOT an ordinary reported error. Known pre-existing crashes you must not rely on: astronomically large exponents like ((m/cm)^1e30)^1e30, 65536 `!` in a row, thousands of nested parentheses, calls that pass the polymorphic literals 0/NaN/inf where a unit is required (round_in(1/3 m, NaN cm), atan2(0, 5 cm), factorial(NaN cm)), and a function body that mentions `ans`/`_` called after the last result changed its type.",
 "C11": " Known pre-existing limitation you must not rely on: operands equal up to floating-point rounding of the unit conversion (ratio within ~1e-12 of 1) can already compare asymmetrically.",
 "C13": " Known pre-existing quirk you must not rely on: the `″` alias of arcsecond with short prefixes (`m″`).",
 "C15": " Known pre-existing limitations you must not rely on: echoes of `let x = []` (forall type), base units with implicit dimensions, generic functions (`fn f<D: Dim>`) that also have where-clauses or un-annotated parameters, a*(b*c) echoed as a*b*c and a+(b+c) as a+b+c, two-digit superscript exponents (m¹⁶), dimensions with alternative names.",
 "C16": " Known pre-existing limitations you must not rely on: printed exponents of 10 or more and dimension names with alternative names.",
}


def earlier(pid):
    out = []
    m = re.search(r'"%s": \("%s", "sub-agent, round 1", "(.*?)", "' % (pid, pid), meta_src)
    if m:
        out.append(m.group(1))
    for r in range(2, int(rnd)):
        e = extra.get("R%d%s" % (r, pid))
        if e:
            out.append(e[2])
    return out


for pid, p in sorted(props.items()):
    wt = "/tmp/wt_R%s%s" % (rnd, pid)
    text = "%s\n\n%s\n\nQuantified over: %s" % (p["title"], p["statement"], p["quantifier"]["text"])
    d = DEMO.get(pid, "`cargo run -q -p numbat-cli --offline -- --no-config -e '<code>'` (or a .nbt file; the CLI exits 1 on errors, 101 on a panic) comparing the outcome with what the property dictates")
    prev = "; ".join("(%s) %s" % (chr(ord('a') + i), t) for i, t in enumerate(earlier(pid)))
    task = f"""# Task

You are working in a scratch git worktree of the `numbat` repository at {wt} (a Rust workspace; numbat is a statically typed scientific-calculator language with physical dimensions as types: tokenizer, parser, prefix/name resolution, type checker, bytecode compiler, VM, Rust built-ins under numbat/src/ffi, standard library numbat/modules/**/*.nbt, CLI in numbat-cli). Relevant code for this task: {WHERE[pid]}.

Rules: work ONLY inside {wt}; do NOT read or touch /verif or /repo. There is no network: always build with `--offline`; `export CARGO_TARGET_DIR={wt}/target` (it holds a build cache). Never use `git stash` (shared with other worktrees that are in use); toggle your change with `git diff -- numbat numbat-cli > mutant.diff`, `git apply -R mutant.diff`, `git apply mutant.diff`. Do not edit tests.

## A semantic property the software is supposed to have

{text}

## What to do

Make ONE realistic change to the numbat sources that BREAKS this property, while (1) the workspace still compiles and (2) the existing test suite still passes unchanged: `cargo test --workspace --no-fail-fast --offline` (1-2 minutes once built; run it at least twice with your change applied; if your change makes a test fail, choose another change). Make it the kind of bug a maintainer could plausibly introduce during a refactoring, an optimisation or a small feature, and prefer a subtle change that needs a specific combination / sequence / value to manifest over one that ordinary use exposes at once. Avoid state shared between independent sessions unless sharing is the point of the property.

Earlier experiments already used these changes: {prev}. Yours must be a DIFFERENT kind of change in a different function or mechanism, exercising a part of the property's statement (or of its quantifier: look at every clause and every kind of input it lists) that those did not.{EXTRA.get(pid, "")}

## Deliverables (inside {wt})

- `mutant.diff`: output of `git diff -- numbat numbat-cli` (your source change only);
- `demo.sh`: an executable demonstration that exits non-zero WITH your change and exits 0 WITHOUT it; it must set CARGO_TARGET_DIR itself. Suggested form: {d};
- `REPORT.txt` (create it with a shell heredoc): what you changed, why it breaks the property, exactly what is needed to manifest it, and the commands you ran with their outcomes (test suite passes with the change; demo fails with the change; demo passes after `git apply -R mutant.diff`; change re-applied). If you notice a defect of the UNCHANGED code while exploring, describe it in a separate last section.

Leave the change applied in the worktree, do not commit. Final answer: one short paragraph (what the change is, how it manifests, test/demo outcomes, and any defect of the unchanged code you noticed).
"""
    open("%s/TASK_%s.md" % (outdir, pid), "w").write(task)
print("wrote", len(props), "task files to", outdir)

//! C14 — displayed numbers read back as the value they show.

use crate::engine::*;
use crate::session::*;
use crate::PropDef;
use numbat::FormatOptions;
use numbat::verif_hooks::VValue;
use proptest::prelude::*;
use serde::{Deserialize, Serialize};
use serde_json::{Value as J, json};

pub fn def() -> PropDef {
    PropDef {
        id: "C14",
        run,
        replay,
    }
}

const SEPARATORS: [&str; 7] = ["_", ",", " ", "'", "", "\u{202f}", "\u{a0}"];

#[derive(Clone, Debug, Serialize, Deserialize)]
struct Case {
    bits: u64,
    sep: u8,
    threshold: u8,
    sd: u8,
    class: String,
}

fn ulps(x: f64, n: i64) -> f64 {
    if !x.is_finite() {
        return x;
    }
    let b = x.to_bits() as i64;
    let nb = if x >= 0.0 { b + n } else { b - n };
    let y = f64::from_bits(nb as u64);
    if y.is_finite() && (y >= 0.0) == (x >= 0.0) { y } else { x }
}

fn number_strategy() -> impl Strategy<Value = (f64, &'static str)> {
    prop_oneof![
        // integers around powers of ten
        3 => (0u32..23, -3i64..4).prop_map(|(k, d)| (10f64.powi(k as i32) + d as f64, "int-near-10^k")),
        // integers around 2^53
        2 => (-3i64..4, any::<bool>()).prop_map(|(d, big)| {
            let base = if big { 9007199254740992.0 } else { 4503599627370496.0 };
            (ulps(base, d), "int-near-2^53")
        }),
        // small and medium integers
        2 => (0i64..10_000_000_000).prop_map(|n| (n as f64, "integer")),
        // notation switch points
        3 => (prop_oneof![Just(1e-6), Just(1e6), Just(1e-5), Just(1e5), Just(1e7), Just(1e-7)], -3i64..4)
            .prop_map(|(b, d)| (ulps(b, d), "notation-switch")),
        // rounding midpoints at s significant digits: d.ddd5 × 10^e, ± a few ulps
        4 => (1usize..17, 1u64..u64::MAX, -30i32..30, -2i64..3).prop_map(|(s, m, e, d)| {
            let digits: String = format!("{:017}", m % 100_000_000_000_000_000).chars().take(s).collect();
            let digits = if digits.starts_with('0') { format!("1{}", &digits[1..]) } else { digits };
            let text = format!("{}.{}5e{}", &digits[..1], &digits[1..], e);
            (ulps(text.parse::<f64>().unwrap(), d), "rounding-midpoint")
        }),
        // decimal fractions with few digits
        3 => (1i64..1_000_000, 0i32..12).prop_map(|(m, e)| (format!("{m}e-{e}").parse::<f64>().unwrap(), "short-decimal")),
        // subnormals and extremes
        1 => prop_oneof![Just(f64::MAX), Just(f64::MIN_POSITIVE), Just(5e-324), Just(2.2250738585072009e-308), Just(1e300), Just(1e-300)]
            .prop_map(|x| (x, "extreme")),
        1 => (1u64..(1u64 << 52)).prop_map(|b| (f64::from_bits(b), "subnormal")),
        // random bit patterns
        4 => any::<u64>().prop_map(|b| (f64::from_bits(b), "random-bits")),
        // log-uniform magnitudes with full mantissa
        3 => (-12i32..16, any::<u64>()).prop_map(|(e, m)| {
            let frac = (m >> 11) as f64 / (1u64 << 53) as f64;
            ((1.0 + 9.0 * frac) * 10f64.powi(e), "log-uniform")
        }),
        1 => prop_oneof![Just(f64::NAN), Just(f64::INFINITY), Just(f64::NEG_INFINITY), Just(-0.0), Just(0.0)]
            .prop_map(|x| (x, "special")),
    ]
}

fn case_strategy() -> impl Strategy<Value = Case> {
    (number_strategy(), any::<bool>(), 0u8..7, 1u8..11, 1u8..18).prop_map(|((x, class), neg, sep, threshold, sd)| {
        let x = if neg && !x.is_nan() { -x } else { x };
        Case {
            bits: x.to_bits(),
            sep,
            threshold,
            sd,
            class: class.to_string(),
        }
    })
}

fn round_sig(x: f64, sd: usize) -> f64 {
    format!("{:.*e}", sd - 1, x).parse::<f64>().unwrap()
}

fn check(c: &Case, st: &mut Stats) -> CheckResult {
    st.eval();
    let x = f64::from_bits(c.bits);
    let sep = SEPARATORS[c.sep as usize % 7];
    let opts = FormatOptions {
        digit_separator: sep.to_string(),
        digit_grouping_threshold: c.threshold as usize,
        significant_digits: c.sd as usize,
        ..FormatOptions::default()
    };
    // obtain a value holding exactly x
    let mut ctx = fresh_context();
    let src = if x.is_nan() {
        "NaN".to_string()
    } else if x.is_infinite() {
        if x > 0.0 { "inf".into() } else { "-inf".into() }
    } else if x.is_sign_negative() {
        format!("-{:?}", -x)
    } else {
        format!("{x:?}")
    };
    let o = eval(&mut ctx, &format!("let xx_n = {src}"));
    if !o.ok() {
        return Err(Failure::new("literal-rejected", format!("numbat rejects the literal `{src}`: {}", o.summary())));
    }
    let Some(value) = ctx.verif_raw_global_value("xx_n") else {
        return Err(Failure::new("harness", "no value"));
    };
    let held = match ctx.verif_raw_global("xx_n") {
        Some(VValue::Quantity(q)) => q.value,
        _ => return Err(Failure::new("harness", "not a quantity")),
    };
    if held.to_bits() != x.to_bits() && !(held.is_nan() && x.is_nan()) {
        // the literal did not produce exactly x (e.g. the sign of zero): not what is under test
        st.excluded("literal-not-bit-exact");
        return Ok(());
    }
    let text = match catch(|| plain(&value.pretty_print_with(&opts))) {
        Ok(t) => t,
        Err((loc, msg)) => return Err(Failure::new(format!("panic:{loc}"), format!("formatting {x:e} with {opts:?} panicked: {msg}"))),
    };
    let desc = format!("x = {x:e} (bits {:#x}), separator {:?}, threshold {}, significant digits {}", c.bits, sep, c.threshold, c.sd);
    st.label(&format!("class:{}", c.class));
    if x.is_nan() {
        if text != "NaN" {
            return Err(Failure::new("nan-not-keyword", format!("NaN is displayed as `{text}`; {desc}")));
        }
        return Ok(());
    }
    if x.is_infinite() {
        let want = if x > 0.0 { "inf" } else { "-inf" };
        if text != want {
            return Err(Failure::new("inf-not-keyword", format!("{want} is displayed as `{text}`; {desc}")));
        }
        return Ok(());
    }
    let stripped = if sep.is_empty() { text.clone() } else { text.replace(sep, "") };
    // (i) parses as a number in Rust
    let Ok(v) = stripped.parse::<f64>() else {
        return Err(Failure::new("not-a-number", format!("`{text}` (separator removed: `{stripped}`) is not a numeric literal; {desc}")));
    };
    // (ii) numbat accepts it as a literal with that value
    let lit_src = if let Some(rest) = stripped.strip_prefix('-') { format!("-({rest})") } else { stripped.clone() };
    let o2 = eval(&mut ctx, &format!("let xx_m = {lit_src}"));
    let back = match ctx.verif_raw_global("xx_m") {
        Some(VValue::Quantity(q)) if o2.ok() && q.factors.is_empty() => q.value,
        _ => {
            return Err(Failure::new(
                "displayed-number-not-a-literal",
                format!("displayed `{text}` is not accepted as a numeric literal (`{lit_src}`): {}; {desc}", o2.summary()),
            ));
        }
    };
    if back != v {
        return Err(Failure::new(
            "literal-value-differs",
            format!("displayed `{text}` reads back in numbat as {back:e}, Rust reads {v:e}; {desc}"),
        ));
    }
    // (iii) value
    let is_small_integer = x.trunc() == x && x.abs() < 9007199254740992.0;
    if is_small_integer {
        if v != x {
            return Err(Failure::new(
                "integer-digits-lost",
                format!("integer {x:e} is displayed as `{text}` = {v:e}: not all digits shown; {desc}"),
            ));
        }
        if stripped.contains('e') || stripped.contains('.') {
            return Err(Failure::new(
                "integer-digits-lost",
                format!("integer {x:e} below 2^53 is displayed as `{text}`, not with all its digits; {desc}"),
            ));
        }
        // grouping: groups of three iff the digit count reaches the threshold
        let digits = stripped.trim_start_matches('-').len();
        let expect_grouping = !sep.is_empty() && digits >= (c.threshold as usize) && digits > 3;
        let body = text.trim_start_matches('-');
        let grouped: String = {
            let ds: Vec<char> = stripped.trim_start_matches('-').chars().collect();
            let mut out = String::new();
            for (i, ch) in ds.iter().enumerate() {
                if i > 0 && (ds.len() - i) % 3 == 0 {
                    out.push_str(sep);
                }
                out.push(*ch);
            }
            out
        };
        let want_body = if expect_grouping { grouped } else { stripped.trim_start_matches('-').to_string() };
        if body != want_body {
            return Err(Failure::new(
                "grouping",
                format!("integer is displayed as `{text}`, expected `{want_body}` (grouping iff >= {} digits); {desc}", c.threshold),
            ));
        }
        if expect_grouping {
            st.label("grouped");
        }
    } else {
        let sd = c.sd as usize;
        let cands = [round_sig(x, sd), round_sig(ulps(x, 1), sd), round_sig(ulps(x, -1), sd)];
        if !cands.contains(&v) {
            return Err(Failure::new(
                "wrong-rounding",
                format!(
                    "{x:e} is displayed as `{text}` = {v:e}; rounded to {sd} significant digits it is {:e}; {desc}",
                    cands[0]
                ),
            ));
        }
        if !sep.is_empty() && text.contains(sep) && sep != " " {
            st.label("separator-in-non-integer");
        }
        if stripped.contains('e') {
            st.label("exponent-notation");
        }
        if v != x {
            st.label("rounded");
        }
    }
    if !(is_small_integer && x.abs() < 1000.0) {
        st.nontrivial_with_sample(hash_str(&format!("{}|{}|{}|{}", c.bits, c.sep, c.threshold, c.sd)), || {
            json!({"x": format!("{x:e}"), "separator": sep, "threshold": c.threshold, "significant_digits": c.sd, "displayed": text})
        });
    }
    Ok(())
}

fn run(cfg: &Cfg) -> Report {
    let mut rep = Report::new(
        cfg,
        "f64 values by class (integers around 10^k and 2^53, notation switch points 1e-7..1e7 ± 3 ulp, decimal rounding midpoints at 1-16 digits ± 2 ulp, short decimals, subnormals, extremes, random bit patterns, log-uniform magnitudes, NaN/inf/±0; both signs) x separator in {_ , space ' none, U+202F, U+00A0} x grouping threshold 1-10 x significant digits 1-17. The value is obtained by interpreting its shortest literal (bit-exactness verified), formatted with Value::pretty_print_with. Oracle: keywords for NaN/inf; otherwise, separator removed, the text parses in Rust and is accepted by numbat as a literal with the same value; integers below 2^53 show all digits, grouped in threes iff the digit count reaches the threshold; other values equal x rounded to the configured significant digits (reference: Rust's exact {:.Ne} formatting of x and of its two neighbouring floats, i.e. either neighbour is accepted within 1 ulp of a midpoint). non-trivial = not an integer below 1000; distinct = (bits, options)",
    );
    let cases = cfg.tier.pick(500000u32, 4000000u32);
    rep.absorb(run_proptest(
        cfg,
        "format",
        cases,
        case_strategy,
        |c: &Case| serde_json::to_value(c).unwrap(),
        check,
    ));
    rep.assume("the documented separator choices (\"_\", \",\", \" \", \"'\", \"\") and two multi-byte ones (U+202F, U+00A0); separators longer than 8 bytes are not generated");
    rep.assume("significant digits 1-17: 0 has no meaning for 'rounded to the displayed number of significant digits', and values above 255 wrap in numbat's `as u8` conversion (both panic in the formatter today; observed by a sub-agent, outside the domain of this check)");
    rep
}

fn replay(_sub: &str, case: &J) -> CheckResult {
    let c: Case = serde_json::from_value(case.clone()).map_err(|e| Failure::new("harness", e.to_string()))?;
    check(&c, &mut Stats::default())
}

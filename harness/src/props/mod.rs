use crate::PropDef;

pub mod pairs;
pub mod sessgen;

pub mod typedgen;

pub mod c01;
pub mod c02;
pub mod c03;
pub mod c04;
pub mod c05;
pub mod c06;
pub mod c07;
pub mod c08;
pub mod c09;
pub mod c10;
pub mod c11;
pub mod c12;
pub mod c13;
pub mod c14;
pub mod c15;
pub mod c16;
pub mod c17;
pub mod c18;
pub mod c19;
pub mod c20;
pub mod c21;
pub mod c22;
pub mod c23;
pub mod c24;

pub fn all() -> Vec<PropDef> {
    vec![
        c01::def(),
        c02::def(),
        c03::def(),
        c04::def(),
        c05::def(),
        c06::def(),
        c07::def(),
        c08::def(),
        c09::def(),
        c10::def(),
        c11::def(),
        c12::def(),
        c13::def(),
        c14::def(),
        c15::def(),
        c16::def(),
        c17::def(),
        c18::def(),
        c19::def(),
        c20::def(),
        c21::def(),
        c22::def(),
        c23::def(),
        c24::def(),
    ]
}

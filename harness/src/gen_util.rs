//! Small generator helpers shared by the properties.
use proptest::prelude::*;

/// Monotone index mapping (shrinks towards 0).
pub fn pick_idx(raw: u16, len: usize) -> usize {
    if len == 0 {
        return 0;
    }
    ((raw as usize) * len) >> 16
}

pub fn idx() -> impl Strategy<Value = u16> {
    any::<u16>()
}

//! C23 — standard-library inverse conversions round-trip.

use super::pairs::*;
use crate::engine::*;
use crate::gen_util::*;
use crate::refmodel::units::*;
use crate::session::*;
use crate::PropDef;
use numbat::verif_hooks::VValue;
use proptest::prelude::*;
use serde::{Deserialize, Serialize};
use serde_json::{Value as J, json};

pub fn def() -> PropDef {
    PropDef {
        id: "C23",
        run,
        replay,
    }
}

#[derive(Clone, Debug, Serialize, Deserialize)]
enum G {
    /// kelvin value -> °C -> kelvin, -> °F -> kelvin, °C -> °F -> °C
    Temperature { milli_kelvin: u32, big: bool, which: u8 },
    /// scalar inverse pair index, parameter in [0,1)
    Math { pair: u8, t: u32 },
    /// unix time: resolution 0 = s, 1 = ms, 2 = µs; value
    Unix { res: u8, n: i64 },
    /// datetime -> unixtime -> datetime, julian date both ways
    Instant { secs: i64, nanos: u32, which: u8 },
    /// mixed units: group and units picked by index, magnitude
    Mixed { first: u16, others: Vec<u16>, mag: u32, neg: bool },
    /// the fixed mixed conversions
    FixedMixed { which: u8, mag: u32 },
}

fn g_strategy() -> impl Strategy<Value = G> {
    prop_oneof![
        3 => (0u32..2_000_000, any::<bool>(), 0u8..4).prop_map(|(milli_kelvin, big, which)| G::Temperature { milli_kelvin, big, which }),
        6 => (0u8..MATH.len() as u8, any::<u32>()).prop_map(|(pair, t)| G::Math { pair, t }),
        3 => (0u8..3, -250_000_000_000i64..250_000_000_000).prop_map(|(res, n)| G::Unix { res, n }),
        4 => (prop_oneof![-62_000_000_000i64..250_000_000_000, -3_000_000_000i64..3_000_000_000], 0u32..1_000_000_000, 0u8..4)
            .prop_map(|(secs, nanos, which)| G::Instant { secs, nanos, which }),
        4 => (idx(), proptest::collection::vec(idx(), 1..4), 1u32..100_000_000, any::<bool>())
            .prop_map(|(first, others, mag, neg)| G::Mixed { first, others, mag, neg }),
        2 => (0u8..4, 1u32..100_000_000).prop_map(|(which, mag)| G::FixedMixed { which, mag }),
    ]
}

struct MathPair {
    name: &'static str,
    /// forward then inverse, `{}` is the argument
    expr: &'static str,
    lo: f64,
    hi: f64,
    /// log-uniform domain?
    log: bool,
    /// absolute tolerance = abs + rel * |x|
    abs: f64,
    rel: f64,
}

const MATH: &[MathPair] = &[
    MathPair { name: "asin(sin x)", expr: "asin(sin({}))", lo: -1.56, hi: 1.56, log: false, abs: 1e-10, rel: 0.0 },
    MathPair { name: "sin(asin x)", expr: "sin(asin({}))", lo: -1.0, hi: 1.0, log: false, abs: 1e-14, rel: 0.0 },
    MathPair { name: "acos(cos x)", expr: "acos(cos({}))", lo: 0.01, hi: 3.13, log: false, abs: 1e-10, rel: 0.0 },
    MathPair { name: "cos(acos x)", expr: "cos(acos({}))", lo: -1.0, hi: 1.0, log: false, abs: 1e-14, rel: 0.0 },
    MathPair { name: "atan(tan x)", expr: "atan(tan({}))", lo: -1.56, hi: 1.56, log: false, abs: 1e-10, rel: 0.0 },
    MathPair { name: "tan(atan x)", expr: "tan(atan({}))", lo: -1e3, hi: 1e3, log: false, abs: 1e-12, rel: 1e-9 },
    MathPair { name: "asinh(sinh x)", expr: "asinh(sinh({}))", lo: -20.0, hi: 20.0, log: false, abs: 1e-12, rel: 1e-12 },
    MathPair { name: "acosh(cosh x)", expr: "acosh(cosh({}))", lo: 0.1, hi: 20.0, log: false, abs: 1e-10, rel: 1e-12 },
    MathPair { name: "atanh(tanh x)", expr: "atanh(tanh({}))", lo: -5.0, hi: 5.0, log: false, abs: 1e-9, rel: 0.0 },
    MathPair { name: "ln(exp x)", expr: "ln(exp({}))", lo: -100.0, hi: 100.0, log: false, abs: 1e-12, rel: 1e-13 },
    MathPair { name: "exp(ln x)", expr: "exp(ln({}))", lo: 1e-10, hi: 1e10, log: true, abs: 0.0, rel: 1e-12 },
    MathPair { name: "log10(10^x)", expr: "log10(10^({}))", lo: -100.0, hi: 100.0, log: false, abs: 1e-12, rel: 1e-13 },
    MathPair { name: "10^(log10 x)", expr: "10^(log10({}))", lo: 1e-10, hi: 1e10, log: true, abs: 0.0, rel: 1e-12 },
    MathPair { name: "log2(2^x)", expr: "log2(2^({}))", lo: -100.0, hi: 100.0, log: false, abs: 1e-12, rel: 1e-13 },
    MathPair { name: "2^(log2 x)", expr: "2^(log2({}))", lo: 1e-10, hi: 1e10, log: true, abs: 0.0, rel: 1e-12 },
    MathPair { name: "sqrt(sqr x)", expr: "sqrt(sqr({}))", lo: 1e-10, hi: 1e10, log: true, abs: 0.0, rel: 1e-14 },
    MathPair { name: "sqr(sqrt x)", expr: "sqr(sqrt({}))", lo: 1e-10, hi: 1e10, log: true, abs: 0.0, rel: 1e-14 },
    MathPair { name: "cbrt(x^3)", expr: "cbrt(({})^3)", lo: 1e-6, hi: 1e6, log: true, abs: 0.0, rel: 1e-13 },
    MathPair { name: "log(exp x)", expr: "log(exp({}))", lo: -100.0, hi: 100.0, log: false, abs: 1e-12, rel: 1e-13 },
];

fn scalar_of(v: Option<VValue>) -> Option<f64> {
    match v {
        Some(VValue::Quantity(q)) if q.factors.is_empty() => Some(q.value),
        // raw values are unsimplified (`s/s`): reduce through RefDim
        Some(VValue::Quantity(q)) => {
            let p = prelude_catalogue().physical(&q)?;
            if p.vec.is_scalar() { Some(p.mag) } else { None }
        }
        _ => None,
    }
}

fn run_code(code: &str) -> Result<numbat::Context, Failure> {
    let mut ctx = prelude();
    let o = eval(&mut ctx, code);
    if let Some((loc, msg)) = &o.panic {
        return Err(Failure::new(format!("panic:{loc}"), format!("{code}: panic at {loc}: {msg}")));
    }
    if !o.ok() {
        return Err(Failure::new("roundtrip-input-fails", format!("{} for\n{code}", o.summary())));
    }
    Ok(ctx)
}

fn civil(secs: i64, nanos: u32) -> String {
    let ts = jiff::Timestamp::new(secs, nanos as i32).expect("timestamp in range");
    let z = ts.to_zoned(jiff::tz::TimeZone::UTC);
    format!("{}", z.strftime("%Y-%m-%d %H:%M:%S%.9f UTC"))
}

fn check(g: &G, st: &mut Stats) -> CheckResult {
    st.eval();
    let cat = prelude_catalogue();
    match g {
        G::Temperature { milli_kelvin, big, which } => {
            let t = if *big { *milli_kelvin as f64 * 0.5 } else { *milli_kelvin as f64 / 1000.0 };
            let tol = 1e-12 * t.max(500.0);
            // the temperature is written in kelvin or in a prefixed kelvin (the functions take any
            // Temperature, whatever unit it is carried in)
            let (unit, factor) = [("K", 1.0), ("mK", 1e-3), ("kK", 1e3), ("µK", 1e-6), ("kelvin", 1.0), ("millikelvin", 1e-3)][(*milli_kelvin % 6) as usize];
            let q = format!("({} {unit})", lit(t / factor));
            let tol = if unit == "K" || unit == "kelvin" { tol } else { tol * 4.0 + 1e-9 };
            let (code, want, label) = match which % 4 {
                0 => (format!("let xx_r = from_celsius({q} -> °C) / K"), t, "K->°C->K"),
                1 => (format!("let xx_r = from_fahrenheit({q} -> °F) / K"), t, "K->°F->K"),
                2 => {
                    let c = t - 273.15;
                    (format!("let xx_r = from_fahrenheit(({} °C) -> °F) -> °C", lit(c)), c, "°C->°F->°C")
                }
                _ => {
                    let f = t * 1.8 - 459.67;
                    (format!("let xx_r = ({} °F) -> °F", lit(f)), f, "°F->K->°F")
                }
            };
            let ctx = run_code(&code)?;
            let Some(r) = scalar_of(ctx.verif_raw_global("xx_r")) else {
                return Err(Failure::new("harness", "no scalar result"));
            };
            if (r - want).abs() > tol {
                return Err(Failure::new(
                    "temperature-roundtrip",
                    format!("{label}: `{code}` gives {r}, expected {want} (tolerance {tol:e})"),
                ));
            }
            st.label("temperature");
            st.nontrivial_with_sample(hash_str(&code), || json!({"code": code, "result": r}));
        }
        G::Math { pair, t } => {
            let p = &MATH[*pair as usize % MATH.len()];
            let u = *t as f64 / u32::MAX as f64;
            let x = if p.log {
                (p.lo.ln() + u * (p.hi.ln() - p.lo.ln())).exp()
            } else {
                p.lo + u * (p.hi - p.lo)
            };
            let code = format!("let xx_r = {}", p.expr.replace("{}", &lit(x)));
            let ctx = run_code(&code)?;
            let Some(r) = scalar_of(ctx.verif_raw_global("xx_r")) else {
                return Err(Failure::new("harness", "no scalar result"));
            };
            let tol = p.abs + p.rel * x.abs();
            if !((r - x).abs() <= tol) {
                return Err(Failure::new(
                    format!("math-inverse:{}", p.name),
                    format!("{}: `{code}` gives {r:e}, expected {x:e} (tolerance {tol:e})", p.name),
                ));
            }
            st.label(&format!("math:{}", p.name));
            if x != 0.0 && x != 1.0 {
                st.nontrivial_with_sample(hash_str(&code), || json!({"code": code, "result": r}));
            }
        }
        G::Unix { res, n } => {
            // The library goes through microseconds held in an f64. While the microsecond count
            // is below 2^53 it is exact, so whole seconds / milliseconds must round-trip exactly
            // (and so must microseconds); beyond 2^53 µs (dates more
            // than ~285 years from 1970) the intermediate is only accurate to its own ulp
            // (16-64 µs) and the final `floor` may land one unit lower: one unit is tolerated.
            let (suffix, n, per_unit_us) = match res % 3 {
                0 => ("s", *n, 1_000_000i128),
                1 => ("ms", n * 1000 + (n % 997), 1000i128),
                _ => ("µs", (n % 9_000_000_000) * 1_000_000 + (n % 999_983), 1i128),
            };
            let exact_range = (n as i128 * per_unit_us).abs() < (1i128 << 53);
            let tol = if exact_range { 0.0 } else { 1.0 };
            st.label(if exact_range { "unixtime:µs-representable" } else { "unixtime:beyond-2^53-µs" });
            let code = format!("let xx_r = unixtime_{suffix}(from_unixtime_{suffix}({n}))");
            let ctx = run_code(&code)?;
            let Some(r) = scalar_of(ctx.verif_raw_global("xx_r")) else {
                return Err(Failure::new("harness", "no scalar result"));
            };
            if (r - n as f64).abs() > tol {
                return Err(Failure::new(
                    format!("unixtime-roundtrip:{suffix}"),
                    format!("`{code}` gives {r}, expected {n} (tolerance {tol} {suffix})"),
                ));
            }
            st.label(&format!("unixtime:{suffix}"));
            st.nontrivial_with_sample(hash_str(&code), || json!({"code": code, "result": r}));
        }
        G::Instant { secs, nanos, which } => {
            // variant 3: an instant with whole microseconds, through the microsecond functions
            let nanos = if which % 4 == 3 { (*nanos / 1000) * 1000 } else { *nanos };
            let text = civil(*secs, nanos);
            let (code, tol, label) = match which % 4 {
                3 => (
                    format!("let xx_t = datetime(\"{text}\")\nlet xx_r = (from_unixtime_µs(unixtime_µs(xx_t)) - xx_t) / s"),
                    // the microsecond count is an integer held in an f64: exact below 2^53 µs
                    // (year 1684-2255), accurate to its ulp (at most 64 µs in range) beyond
                    if (*secs as i128 * 1_000_000).abs() < (1i128 << 53) { 0.0 } else { 1e-4 },
                    "from_unixtime_µs(unixtime_µs(t)), whole µs",
                ),
                0 => (
                    format!("let xx_t = datetime(\"{text}\")\nlet xx_r = (from_unixtime(unixtime(xx_t)) - xx_t) / s"),
                    // unixtime has µs resolution (floor) and goes through f64 seconds
                    2e-6 + 4.0 * (*secs as f64).abs() * f64::EPSILON,
                    "from_unixtime(unixtime(t))",
                ),
                1 => (
                    format!("let xx_t = datetime(\"{text}\")\nlet xx_r = (from_julian_date(julian_date(xx_t)) - xx_t) / s"),
                    1e-4,
                    "from_julian_date(julian_date(t))",
                ),
                _ => {
                    let days = (*secs as f64) / 86400.0 + 2_440_587.5;
                    (
                        format!("let xx_r = (julian_date(from_julian_date({} days)) - {} days) / s", lit(days), lit(days)),
                        1e-4,
                        "julian_date(from_julian_date(x))",
                    )
                }
            };
            let ctx = run_code(&code)?;
            let Some(r) = scalar_of(ctx.verif_raw_global("xx_r")) else {
                return Err(Failure::new("harness", "no scalar result"));
            };
            if !(r.abs() <= tol) {
                return Err(Failure::new(
                    format!("instant-roundtrip:{label}"),
                    format!("{label}: `{code}` is off by {r:e} s (tolerance {tol:e} s)"),
                ));
            }
            st.label(&format!("instant:{label}"));
            st.nontrivial_with_sample(hash_str(&code), || json!({"code": code, "offset_s": r}));
        }
        G::Mixed { first, others, mag, neg } => {
            // units of one dimension group with distinct sizes
            let u0 = pick_idx(*first, cat.units.len());
            let group = cat.groups.iter().find(|g| g.contains(&u0)).unwrap();
            let mut chosen = vec![u0];
            for o in others {
                let u = group[pick_idx(*o, group.len())];
                if chosen.iter().all(|c| !rel_close(cat.units[*c].base_factor, cat.units[u].base_factor, 1e-9)) {
                    chosen.push(u);
                }
            }
            if chosen.len() < 2 {
                st.excluded("mixed-units-needs-two-sizes");
                return Ok(());
            }
            chosen.sort_by(|a, b| cat.units[*b].base_factor.partial_cmp(&cat.units[*a].base_factor).unwrap());
            let names: Vec<String> = chosen.iter().map(|u| cat.units[*u].def.name.clone()).collect();
            // value: a few units of the largest size plus fractions
            let value = (*mag as f64) / 1000.0 * if *neg { -1.0 } else { 1.0 };
            let smallest = names.last().unwrap().clone();
            let code = format!(
                "let xx_v = {} {}\nlet xx_r = xx_v |> unit_list([{}])",
                lit(value),
                smallest,
                names.iter().rev().cloned().collect::<Vec<_>>().join(", ")
            );
            check_mixed(&code, &chosen, st)?;
        }
        G::FixedMixed { which, mag } => {
            let (f, unit, units): (&str, &str, [&str; 3]) = match which % 4 {
                0 => ("DMS", "degree", ["degree", "arcminute", "arcsecond"]),
                1 => ("DM", "degree", ["degree", "arcminute", ""]),
                2 => ("feet_and_inches", "centimetre", ["foot", "inch", ""]),
                _ => ("pounds_and_ounces", "gram", ["pound", "ounce", ""]),
            };
            let value = *mag as f64 / 1000.0;
            let code = format!("let xx_v = {} {unit}\nlet xx_r = xx_v -> {f}", lit(value));
            let chosen: Vec<usize> = units.iter().filter(|u| !u.is_empty()).map(|u| cat.by_name[*u]).collect();
            check_mixed(&code, &chosen, st)?;
        }
    }
    Ok(())
}

/// `xx_v` is split into `xx_r`, a list with one part per unit of `units` (descending size).
fn check_mixed(code: &str, units: &[usize], st: &mut Stats) -> CheckResult {
    let cat = prelude_catalogue();
    let ctx = run_code(code)?;
    let (Some(VValue::Quantity(v)), Some(VValue::List(parts))) = (ctx.verif_raw_global("xx_v"), ctx.verif_raw_global("xx_r")) else {
        return Err(Failure::new("harness", "unexpected result shape"));
    };
    let fail = |what: String| Failure::new("mixed-units", format!("{what}; `{}`", code.replace('\n', "; ")));
    if parts.len() != units.len() {
        return Err(fail(format!("{} parts for {} units", parts.len(), units.len())));
    }
    let total = cat.physical(&v).unwrap();
    let mut sum = 0.0;
    let mut nonzero = 0;
    for (i, p) in parts.iter().enumerate() {
        let VValue::Quantity(q) = p else {
            return Err(fail("a part is not a quantity".into()));
        };
        // each part is expressed in its unit, units in descending order
        if q.factors.len() != 1 || q.factors[0].unit != cat.units[units[i]].def.name {
            return Err(fail(format!("part {i} is in `{}`, expected {}", q.unit_display, cat.units[units[i]].def.name)));
        }
        if i + 1 < parts.len() && q.value.fract() != 0.0 {
            return Err(fail(format!("part {i} = {} {} is not a whole number", q.value, q.unit_display)));
        }
        if total.mag >= 0.0 && q.value < 0.0 {
            return Err(fail(format!("part {i} = {} {} is negative for a non-negative input", q.value, q.unit_display)));
        }
        if q.value != 0.0 {
            nonzero += 1;
        }
        sum += cat.physical(q).unwrap().mag;
    }
    if !rel_close(sum, total.mag, 1e-9) && (sum - total.mag).abs() > 1e-9 * total.mag.abs() {
        return Err(fail(format!("the parts add up to {sum} in base units, the input is {}", total.mag)));
    }
    st.label("mixed-units");
    if nonzero >= 2 {
        st.nontrivial_with_sample(hash_str(code), || json!({"code": code, "parts": parts.len()}));
    }
    Ok(())
}

fn run(cfg: &Cfg) -> Report {
    let mut rep = Report::new(
        cfg,
        "proptest values over each documented inverse pair's domain: temperatures 0-2000 K (mK steps) and up to 1e6 K, written in K, mK, µK, kK, kelvin or millikelvin, through °C and °F and between them; 19 scalar inverse compositions (trigonometric, hyperbolic, exp/log in bases e, 10, 2, sqrt/sqr, cbrt/cube) on their principal domains, a stated distance from ill-conditioned ends; Unix time in s/ms/µs over ±year 9999 (µs within ±2^53); instants (second + nanosecond, half of them within 95 years of 1970; also whole-microsecond instants through the microsecond functions) through unixtime and Julian date both ways; unit_list with 2-4 same-dimension prelude units of distinct size and the fixed conversions DMS, DM, feet_and_inches, pounds_and_ounces. Oracle: g(f(x)) = x within a per-pair tolerance derived from the conditioning (stated per pair in the harness; exact for s/ms/µs Unix time while the microsecond count is below 2^53, 1 unit beyond, 1e-4 s for Julian dates); mixed units: parts are in the listed units in descending order, all but the last are whole numbers, non-negative for non-negative input, and add up to the input (1e-9). non-trivial = x not 0/1 (mixed units: >= 2 non-zero parts); distinct = program text",
    );
    let cases = cfg.tier.pick(12000u32, 150000u32);
    rep.absorb(run_proptest(
        cfg,
        "inverse",
        cases,
        g_strategy,
        |g: &G| serde_json::to_value(g).unwrap(),
        check,
    ));
    let _ = (spelling, pseudo_mag);
    rep
}

fn replay(_sub: &str, case: &J) -> CheckResult {
    let g: G = serde_json::from_value(case.clone()).map_err(|e| Failure::new("harness", e.to_string()))?;
    check(&g, &mut Stats::default())
}

//! C02 — static checking accepts exactly the dimensionally consistent programs.

use super::c01::vtype_dims;
use super::c17::session_digest;
use super::typedgen::*;
use crate::engine::*;
use crate::refmodel::units::*;
use crate::session::*;
use crate::PropDef;
use proptest::prelude::*;
use serde::{Deserialize, Serialize};
use serde_json::{Value as J, json};

pub fn def() -> PropDef {
    PropDef {
        id: "C02",
        run,
        replay,
    }
}

#[derive(Clone, Debug, Serialize, Deserialize)]
struct Case {
    program: Vec<TIns>,
    /// equality sites to poison, one variant each (taken modulo the number of sites)
    variants: Vec<u16>,
}

fn case_strategy() -> impl Strategy<Value = Case> {
    (
        proptest::collection::vec(tins_strategy(), 3..10),
        proptest::collection::vec(any::<u16>(), 1..4),
    )
        .prop_map(|(program, variants)| Case { program, variants })
}

struct Rendered {
    stmts: Vec<Stmt>,
    sites: usize,
    poisoned_stmt: Option<usize>,
    features: Features,
}

fn render(program: &[TIns], poison: Option<usize>) -> Rendered {
    let cat = prelude_catalogue();
    let mut g = Gen::new(&cat);
    g.poison = poison;
    let mut stmts: Vec<Stmt> = vec![];
    let mut poisoned_stmt = None;
    for ins in program {
        let before = g.poisoned;
        let new = g.render(ins);
        if g.poisoned && !before {
            // the poisoned site is in one of the statements just rendered: find it by its marker
            for (k, s) in new.iter().enumerate() {
                if s.text.contains("* (3 second))") {
                    poisoned_stmt = Some(stmts.len() + k);
                }
            }
        }
        stmts.extend(new);
    }
    Rendered {
        stmts,
        sites: g.site,
        poisoned_stmt,
        features: g.features.clone(),
    }
}

fn check(c: &Case, st: &mut Stats) -> CheckResult {
    st.eval();
    let good = render(&c.program, None);
    let source: Vec<String> = good.stmts.iter().map(|s| s.text.clone()).collect();
    let text = source.join("\n");
    let mut ctx = prelude();
    let names_before = session_digest(&ctx);
    let o = eval(&mut ctx, &text);
    if let Some((loc, msg)) = &o.panic {
        return Err(Failure::new(format!("panic:{loc}"), format!("panic at {loc}: {msg}\n{text}")));
    }
    if let Some(e) = &o.error {
        if e.stage != Stage::Runtime {
            return Err(Failure::new(
                "consistent-program-rejected",
                format!("a dimensionally consistent program was rejected: {:?}/{}: {}\n{text}", e.stage, e.kind, e.message),
            ));
        }
        // a value-dependent run-time error: the program was accepted, which is what C02 is about
        st.label("accepted-then-runtime-error");
    } else {
        // reported types of all definitions
        let mut k = 0;
        for info in &o.stmts {
            // typed statements correspond 1:1 to the source statements
            if let Some(s) = good.stmts.get(k) {
                if let Some(want) = &s.dim {
                    match info.vtype.as_ref().and_then(vtype_dims) {
                        Some(got) if &got == want => {}
                        other => {
                            return Err(Failure::new(
                                "reported-type-differs",
                                format!("`{}` is reported as {:?} but dimensional analysis gives {want}\n{text}", s.text, other.map(|d| d.to_string())),
                            ));
                        }
                    }
                    st.label("type-compared");
                }
            }
            k += 1;
        }
        if o.stmts.len() != good.stmts.len() {
            return Err(Failure::new("harness", format!("{} typed statements for {} source statements\n{text}", o.stmts.len(), good.stmts.len())));
        }
    }
    if good.sites == 0 {
        st.label("no-equality-site");
        return Ok(());
    }
    // mis-dimensioned variants
    let mut nontrivial_variant = false;
    for v in &c.variants {
        let p = (*v as usize) % good.sites;
        let bad = render(&c.program, Some(p));
        if bad.poisoned_stmt.is_none() {
            continue;
        }
        let bad_text: String = bad.stmts.iter().map(|s| s.text.clone()).collect::<Vec<_>>().join("\n");
        let mut ctx2 = prelude();
        let ob = eval(&mut ctx2, &bad_text);
        if let Some((loc, msg)) = &ob.panic {
            return Err(Failure::new(format!("panic:{loc}"), format!("panic at {loc}: {msg}\n{bad_text}")));
        }
        let bad_line = bad.poisoned_stmt.unwrap();
        let desc = format!("variant with statement {bad_line} mis-dimensioned (`{}`):\n{bad_text}", bad.stmts[bad_line].text);
        match &ob.error {
            None => {
                return Err(Failure::new(
                    "inconsistent-program-accepted",
                    format!("a program that requires quantities of different dimension to be equal was accepted; {desc}"),
                ));
            }
            Some(e) if e.stage != Stage::TypeCheck => {
                return Err(Failure::new(
                    "inconsistent-program-not-a-type-error",
                    format!("expected a type error but got {:?}/{}: {}; {desc}", e.stage, e.kind, e.message),
                ));
            }
            _ => {}
        }
        // nothing ran: no print, no definition
        if !ob.prints.is_empty() {
            return Err(Failure::new("rejected-program-printed", format!("a rejected input printed {:?}; {desc}", ob.prints)));
        }
        let names_after = session_digest(&ctx2);
        if names_after != names_before {
            let extra: Vec<&String> = names_after.keys().filter(|k| !names_before.contains_key(*k)).collect();
            return Err(Failure::new("rejected-program-defined-something", format!("a rejected input left definitions behind: {extra:?}; {desc}")));
        }
        for s in &bad.stmts {
            for (name, _) in &s.defines {
                let probe = eval(&mut ctx2, name);
                if probe.ok() {
                    return Err(Failure::new("rejected-program-defined-something", format!("`{name}` exists after the input was rejected; {desc}")));
                }
            }
        }
        st.label("variant-rejected");
        let prints_before = bad.stmts[..bad_line].iter().map(|s| s.prints).sum::<usize>();
        if bad_line > 0 && prints_before > 0 {
            st.label("variant-with-print-before-bad-statement");
            nontrivial_variant = true;
        }
    }
    let f = &good.features;
    if good.stmts.len() >= 3 && (f.derived_dimension || f.generic_instantiations > 0) && nontrivial_variant {
        st.nontrivial_with_sample(hash_str(&text), || json!({"program": source, "sites": good.sites}));
    } else if good.stmts.len() >= 3 && (f.derived_dimension || f.generic_instantiations > 0) {
        st.label("nontrivial-program-without-print-variant");
        st.nontrivial(hash_str(&text));
    }
    Ok(())
}

fn run(cfg: &Cfg) -> Report {
    let mut rep = Report::new(
        cfg,
        "proptest programs of 3-9 TypedGen instructions (dimensionally consistent by construction, see C01) submitted as ONE multi-statement input with prints interleaved, plus 1-3 mis-dimensioned variants of each: one equality site of the program (right operand of + - or a comparison, else-branch, list element, conversion target, annotated definition, argument of an annotated parameter, annotated return expression, assert_eq operand) is multiplied by `3 second`, which changes the dimension of that side only. Oracle: the consistent program is accepted and the checker's type of every definition equals the generator's dimension vector; every variant is rejected with a type error (not a run-time error, not accepted), prints nothing (also not the prints before the bad statement), leaves the session's definitions unchanged, and none of its names exist afterwards. non-trivial = >= 3 statements with a derived dimension or generic function (and, for the counted variants, a print before the bad statement); distinct = program text",
    );
    let cases = cfg.tier.pick(1000u32, 10000u32);
    rep.absorb(run_proptest(
        cfg,
        "programs",
        cases,
        case_strategy,
        |c: &Case| json!({"case": c, "rendered": render(&c.program, None).stmts.iter().map(|s| s.text.clone()).collect::<Vec<_>>()}),
        check,
    ));
    let _ = DimVec::scalar;
    rep
}

fn replay(_sub: &str, case: &J) -> CheckResult {
    let c: Case = serde_json::from_value(case["case"].clone()).map_err(|e| Failure::new("harness", e.to_string()))?;
    check(&c, &mut Stats::default())
}

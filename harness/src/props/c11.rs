//! C11 — comparisons do not depend on operand order.

use super::pairs::*;
use crate::engine::*;
use crate::refmodel::units::*;
use crate::session::*;
use crate::PropDef;
use numbat::verif_hooks::VValue;
use serde_json::{Value as J, json};

pub fn def() -> PropDef {
    PropDef {
        id: "C11",
        run,
        replay,
    }
}

#[derive(Clone, Debug)]
struct Case {
    /// source text defining `xx_a`
    a_src: String,
    /// source text defining `xx_b` (may refer to xx_a)
    b_src: String,
    regime: String,
    units_differ: bool,
}

fn case_json(c: &Case) -> J {
    json!({"a": c.a_src, "b": c.b_src, "regime": c.regime, "units_differ": c.units_differ})
}

fn case_from(j: &J) -> Case {
    Case {
        a_src: j["a"].as_str().unwrap_or("1").into(),
        b_src: j["b"].as_str().unwrap_or("1").into(),
        regime: j["regime"].as_str().unwrap_or("").into(),
        units_differ: j["units_differ"].as_bool().unwrap_or(true),
    }
}

const EXPRS: [&str; 12] = [
    "xx_a == xx_b",
    "xx_b == xx_a",
    "xx_a != xx_b",
    "xx_b != xx_a",
    "xx_a < xx_b",
    "xx_b > xx_a",
    "xx_a <= xx_b",
    "xx_b >= xx_a",
    "xx_a > xx_b",
    "xx_b < xx_a",
    "xx_a >= xx_b",
    "xx_b <= xx_a",
];

fn check(c: &Case, st: &mut Stats) -> CheckResult {
    st.eval();
    let cat = prelude_catalogue();
    let mut ctx = prelude();
    let mut code = format!("let xx_a = {}\nlet xx_b = {}\n", c.a_src, c.b_src);
    for e in EXPRS {
        code.push_str(&format!("print({e})\n"));
    }
    let o = eval(&mut ctx, &code);
    if let Some((loc, msg)) = &o.panic {
        return Err(Failure::new(format!("panic:{loc}"), format!("{code}: panic {msg}")));
    }
    if !o.ok() || o.prints.len() != 12 {
        return Err(Failure::new(
            "comparison-input-fails",
            format!("input failed unexpectedly: {} for\n{code}", o.summary()),
        ));
    }
    let b: Vec<bool> = o.prints.iter().map(|p| p.trim() == "true").collect();
    let (eq_ab, eq_ba, ne_ab, ne_ba, lt_ab, gt_ba, le_ab, ge_ba, gt_ab, lt_ba, ge_ab, le_ba) = (
        b[0], b[1], b[2], b[3], b[4], b[5], b[6], b[7], b[8], b[9], b[10], b[11],
    );
    // physical values from the raw operands
    let (Some(VValue::Quantity(qa)), Some(VValue::Quantity(qb))) =
        (ctx.verif_raw_global("xx_a"), ctx.verif_raw_global("xx_b"))
    else {
        return Err(Failure::new("harness", "operands are not quantities"));
    };
    let (Some(pa), Some(pb)) = (cat.physical(&qa), cat.physical(&qb)) else {
        return Err(Failure::new("harness", "unknown unit in operand"));
    };
    let nan = pa.mag.is_nan() || pb.mag.is_nan();
    let near_equal = !nan
        && pa.mag.is_finite()
        && pb.mag.is_finite()
        && pa.mag != 0.0
        && pb.mag != 0.0
        && (pa.mag / pb.mag - 1.0).abs() < 2f64.powi(-40)
        && qa.factors != qb.factors;
    let detail = json!({"a": c.a_src, "b": c.b_src, "results": o.prints, "phys_a": pa.mag, "phys_b": pb.mag});
    let klass = if near_equal { "near-equal" } else { "separated" };
    let fail = |law: &str, what: &str| {
        Err(Failure::new(
            format!("{law}:{klass}"),
            format!("{what} for a = {}, b = {} (regime {}; results {:?})", c.a_src, c.b_src, c.regime, o.prints),
        )
        .with(detail.clone()))
    };
    // != is the negation of == (same operand order: never subject to rounding asymmetry)
    if ne_ab == eq_ab || ne_ba == eq_ba {
        return Err(Failure::new(
            "ne-is-not-negated-eq",
            format!("`!=` is not the negation of `==` for a = {}, b = {}", c.a_src, c.b_src),
        )
        .with(detail));
    }
    if nan {
        st.label("nan-operand");
        if lt_ab || gt_ba || le_ab || ge_ba || gt_ab || lt_ba || ge_ab || le_ba {
            return Err(Failure::new(
                "nan-ordering-true",
                format!("an ordering comparison with NaN is true: a = {}, b = {}: {:?}", c.a_src, c.b_src, o.prints),
            )
            .with(detail));
        }
        if eq_ab != eq_ba {
            return fail("operand-order-asymmetry", "`a == b` differs from `b == a`");
        }
    } else {
        // trichotomy, evaluated in each operand order separately
        let n1 = [lt_ab, eq_ab, gt_ab].iter().filter(|x| **x).count();
        let n2 = [lt_ba, eq_ba, gt_ba].iter().filter(|x| **x).count();
        if n1 != 1 || n2 != 1 {
            return Err(Failure::new(
                "trichotomy",
                format!("not exactly one of <, ==, > holds: a = {}, b = {}: {:?}", c.a_src, c.b_src, o.prints),
            )
            .with(detail));
        }
        if eq_ab != eq_ba {
            return fail("operand-order-asymmetry", "`a == b` differs from `b == a`");
        }
        if lt_ab != gt_ba || gt_ab != lt_ba {
            return fail("operand-order-asymmetry", "`a < b` differs from `b > a`");
        }
        if le_ab != ge_ba || ge_ab != le_ba {
            return fail("operand-order-asymmetry", "`a <= b` differs from `b >= a`");
        }
        // separated regime: the truth values must equal the reference ordering
        let separated = pa.mag.is_finite()
            && pb.mag.is_finite()
            && (pa.mag - pb.mag).abs() > 1e-6 * pa.mag.abs().max(pb.mag.abs());
        let same_exact = qa.factors == qb.factors;
        if separated || same_exact || pa.mag.is_infinite() || pb.mag.is_infinite() {
            let (w_lt, w_eq, w_gt) = if same_exact {
                (qa.value < qb.value, qa.value == qb.value, qa.value > qb.value)
            } else {
                (pa.mag < pb.mag, pa.mag == pb.mag, pa.mag > pb.mag)
            };
            // infinities in different units: conversion of ±inf stays ±inf (positive factors)
            if (lt_ab, eq_ab, gt_ab) != (w_lt, w_eq, w_gt)
                || le_ab != (w_lt || w_eq)
                || ge_ab != (w_gt || w_eq)
            {
                return Err(Failure::new(
                    "wrong-ordering",
                    format!(
                        "comparison result contradicts the reference ordering ({} vs {} in base units): a = {}, b = {}: {:?}",
                        pa.mag, pb.mag, c.a_src, c.b_src, o.prints
                    ),
                )
                .with(detail));
            }
            st.label("checked-against-reference-order");
        }
    }
    st.label(&format!("regime:{}", c.regime));
    if near_equal {
        st.label("near-equal-operands");
    }
    if c.units_differ && pa.mag != 0.0 && pb.mag != 0.0 {
        st.nontrivial_with_sample(hash_str(&format!("{}|{}", c.a_src, c.b_src)), || {
            json!({"a": c.a_src, "b": c.b_src, "regime": c.regime, "results": o.prints})
        });
    }
    Ok(())
}

fn build_cases(cfg: &Cfg) -> Vec<Case> {
    let cat = prelude_catalogue();
    let mut cases = vec![];
    let reps = cfg.tier.pick(12u64, 60u64);
    for (pi, (ua, ub)) in cat.same_dimension_pairs().into_iter().enumerate() {
        for rep in 0..reps {
            let salt = splitmix64(cfg.seed ^ (pi as u64) << 8 ^ rep);
            let sa = spelling(&cat, ua, salt);
            let sb = spelling(&cat, ub, splitmix64(salt));
            let x = pseudo_mag(salt ^ 0x11);
            let neg = splitmix64(salt ^ 0x22) % 4 == 0;
            let x = if neg { -x } else { x };
            // the value in ub that denotes the same quantity (up to rounding)
            let y_same = x * sa.factor / sb.factor;
            let mk = |a: String, b: String, regime: &str| Case {
                a_src: a,
                b_src: b,
                regime: regime.to_string(),
                units_differ: true,
            };
            let a = format!("{} {}", lit(x), sa.ident);
            // separated: b is a's quantity scaled by a factor away from 1
            let scale = [0.5, 0.999, 1.001, 2.0, -1.0, 1.0 + 1e-5][(splitmix64(salt ^ 0x33) % 6) as usize];
            let y = y_same * scale;
            if y.is_finite() && y != 0.0 {
                cases.push(mk(a.clone(), format!("{} {}", lit(y), sb.ident), "separated"));
            }
            // near-equal: b is a converted by numbat itself
            cases.push(mk(a.clone(), format!("xx_a -> {}", sb.ident), "converted"));
            // near-equal: b is the reference conversion, perturbed by up to one ulp
            if y_same.is_finite() && y_same != 0.0 {
                let bits = y_same.to_bits();
                let pert = [bits, bits + 1, bits - 1][(splitmix64(salt ^ 0x44) % 3) as usize];
                cases.push(mk(
                    a.clone(),
                    format!("{} {}", lit(f64::from_bits(pert)), sb.ident),
                    "ulp-neighbourhood",
                ));
            }
            // special operands
            match splitmix64(salt ^ 0x55) % 6 {
                0 => cases.push(mk(format!("NaN {}", sa.ident), format!("{} {}", lit(y_same), sb.ident), "nan")),
                1 => cases.push(mk(a.clone(), format!("NaN {}", sb.ident), "nan")),
                2 => cases.push(mk(format!("inf {}", sa.ident), format!("{} {}", lit(y_same.abs()), sb.ident), "inf")),
                3 => cases.push(mk(format!("inf {}", sa.ident), format!("inf {}", sb.ident), "inf")),
                4 => cases.push(mk(format!("0 {}", sa.ident), format!("{} {}", lit(y_same), sb.ident), "zero")),
                _ => cases.push(mk(format!("0 {}", sa.ident), format!("0 {}", sb.ident), "zero")),
            }
        }
    }
    // same-unit comparisons (exact)
    for (ui, _) in cat.units.iter().enumerate() {
        let s = spelling(&cat, ui, cfg.seed ^ 0x777);
        let x = pseudo_mag(cfg.seed ^ ui as u64);
        for y in [x, x * 2.0, -x] {
            cases.push(Case {
                a_src: format!("{} {}", lit(x), s.ident),
                b_src: format!("{} {}", lit(y), s.ident),
                regime: "same-unit".into(),
                units_differ: false,
            });
        }
    }
    cases
}

fn run(cfg: &Cfg) -> Report {
    let mut rep = Report::new(
        cfg,
        "all ordered pairs of same-dimension prelude units (complete enumeration; each unit spelled with a seed-dependent alias and accepted prefix) x magnitude regimes: separated (exact ratio differs from 1 by >= 1e-6), converted (b = a -> unit_b computed by numbat), ulp-neighbourhood of the reference conversion, NaN / inf / zero operands, plus same-unit pairs. Twelve comparisons per case; laws: == and the ordering operators are mirror-symmetric, != is not(==), trichotomy for non-NaN, all orderings false with NaN; in the separated regime the results must also equal the ordering of the RefDim base-unit magnitudes. non-trivial = units differ and neither operand is zero; distinct = (a, b) source texts",
    );
    let cases = build_cases(cfg);
    rep.extra("unit_pairs", json!(prelude_catalogue().same_dimension_pairs().len()));
    rep.exhaustive = Some(true);
    rep.extra("exhaustive_over", json!("ordered same-dimension unit pairs (magnitudes are sampled)"));
    rep.absorb(run_enumerated(cfg, "pairs", &cases, case_json, check));
    rep.assume("RefDim base factors are accurate to ~1e-12, so orderings of operands separated by >= 1e-6 relative are decided exactly");
    rep
}

fn replay(_sub: &str, case: &J) -> CheckResult {
    check(&case_from(case), &mut Stats::default())
}

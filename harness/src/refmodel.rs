//! Independent reference models (filled in per property).
pub mod units;

//! C22 — the command-line tool reports success and failure faithfully.

use super::sessgen::*;
use crate::engine::*;
use crate::session::*;
use crate::PropDef;
use proptest::prelude::*;
use serde::{Deserialize, Serialize};
use serde_json::{Value as J, json};
use std::process::Command;
use std::sync::atomic::{AtomicU64, Ordering};

pub fn def() -> PropDef {
    PropDef {
        id: "C22",
        run,
        replay,
    }
}

#[derive(Clone, Debug, Serialize, Deserialize)]
struct Case {
    ins: Vec<Ins>,
    fail: Option<(u8, Fail)>,
}

fn case_strategy() -> impl Strategy<Value = Case> {
    (
        proptest::collection::vec(ins_strategy(), 1..8),
        proptest::option::weighted(0.55, (any::<u8>(), fail_strategy())),
    )
        .prop_map(|(ins, fail)| Case { ins, fail })
}

fn cli_path() -> String {
    format!("{}/target-cli/debug/numbat", verif_dir())
}

static SCRATCH: AtomicU64 = AtomicU64::new(0);

struct Run {
    status: Option<i32>,
    stdout: String,
    stderr: String,
}

fn run_cli(args: &[String]) -> Result<Run, Failure> {
    let out = Command::new(cli_path())
        .args(["--no-config", "--no-init", "--color", "never", "--intro-banner", "off"])
        .args(args)
        .env_clear()
        .env("HOME", "/nonexistent-home")
        .env("XDG_CONFIG_HOME", "/nonexistent-home/.config")
        .env("NO_COLOR", "1")
        .env("TZ", "UTC")
        .env("PATH", "/usr/bin:/bin")
        .stdin(std::process::Stdio::null())
        .output()
        .map_err(|e| Failure::new("infra", format!("cannot run {}: {e}", cli_path())))?;
    Ok(Run {
        status: out.status.code(),
        stdout: String::from_utf8_lossy(&out.stdout).to_string(),
        stderr: String::from_utf8_lossy(&out.stderr).to_string(),
    })
}

fn normalise_label(stderr: &str, file: &str) -> String {
    stderr.replace(&format!("File {file}"), "<SRC>").replace("<input:1>", "<SRC>")
}

fn render(c: &Case) -> (Vec<String>, Option<usize>) {
    let mut env = Env::default();
    let mut lines: Vec<String> = vec![];
    let pos = c.fail.map(|(p, _)| (p as usize) % (c.ins.len() + 1));
    let mut fail_line = None;
    for (i, ins) in c.ins.iter().enumerate() {
        if pos == Some(i) {
            let (t, _) = render_fail(c.fail.unwrap().1, &mut env);
            fail_line = Some(lines.len());
            lines.push(t);
        }
        lines.push(render_ins(ins, &mut env));
    }
    if pos == Some(c.ins.len()) {
        let (t, _) = render_fail(c.fail.unwrap().1, &mut env);
        fail_line = Some(lines.len());
        lines.push(t);
    }
    // -e takes one statement group per argument; multi-line items are kept as one argument
    (lines, fail_line)
}

fn check(c: &Case, st: &mut Stats) -> CheckResult {
    st.eval();
    let (lines, fail_line) = render(c);
    let program = lines.join("\n");
    // library oracle
    let mut ctx = prelude();
    let lib = eval(&mut ctx, &program);
    if let Some((loc, msg)) = &lib.panic {
        return Err(Failure::new(format!("panic:{loc}"), format!("library panicked at {loc}: {msg} for\n{program}")));
    }
    let expect_success = fail_line.is_none();
    if lib.ok() != expect_success {
        return Err(Failure::new("harness", format!("library outcome {} contradicts the construction (fail line {:?}) for\n{program}", lib.summary(), fail_line)));
    }
    let mut expected_stdout = String::new();
    for p in &lib.prints {
        expected_stdout.push_str(p);
        expected_stdout.push('\n');
    }
    if let Some(t) = &lib.result_text {
        expected_stdout.push_str(t);
        expected_stdout.push('\n');
    }
    // run the binary three ways
    let dir = format!("{}/target/scratch", verif_dir());
    let _ = std::fs::create_dir_all(&dir);
    let file = format!("{dir}/cli-{}-{}.nbt", std::process::id(), SCRATCH.fetch_add(1, Ordering::Relaxed));
    std::fs::write(&file, &program).map_err(|e| Failure::new("infra", e.to_string()))?;
    let by_file = run_cli(&[file.clone()]);
    let mut e_args = vec![];
    for l in &lines {
        e_args.push("-e".to_string());
        e_args.push(l.clone());
    }
    let by_e = run_cli(&e_args);
    let by_pp = run_cli(&["--pretty-print".to_string(), "always".to_string(), file.clone()]);
    let _ = std::fs::remove_file(&file);
    let (by_file, by_e, by_pp) = (by_file?, by_e?, by_pp?);
    let desc = format!("program:\n{program}\n");
    for (how, r) in [("FILE", &by_file), ("-e", &by_e), ("--pretty-print always FILE", &by_pp)] {
        if r.status == Some(101) || r.stderr.contains("panicked at") {
            return Err(Failure::new("cli-panic", format!("numbat {how} panicked: {}\n{desc}", r.stderr.lines().take(3).collect::<Vec<_>>().join(" | "))));
        }
        if expect_success {
            if r.status != Some(0) {
                return Err(Failure::new("exit-status", format!("numbat {how}: all inputs succeed but the exit status is {:?}; stderr: {}\n{desc}", r.status, r.stderr)));
            }
            if !r.stderr.is_empty() {
                return Err(Failure::new("stderr-on-success", format!("numbat {how}: success but stderr is not empty: {}\n{desc}", r.stderr)));
            }
        } else {
            if r.status != Some(1) {
                return Err(Failure::new("exit-status", format!("numbat {how}: an input fails but the exit status is {:?}\n{desc}", r.status)));
            }
            if !r.stderr.contains("error") {
                return Err(Failure::new("diagnostic-not-on-stderr", format!("numbat {how}: failure without a diagnostic on stderr: `{}`\n{desc}", r.stderr)));
            }
            if r.stdout.contains("error") && r.stdout.contains("│") {
                return Err(Failure::new("diagnostic-on-stdout", format!("numbat {how}: diagnostic text on stdout: {}\n{desc}", r.stdout)));
            }
        }
    }
    if expect_success {
        if by_file.stdout != expected_stdout {
            return Err(Failure::new(
                "stdout-differs",
                format!("numbat FILE wrote {:?}, expected prints and final result {:?}\n{desc}", by_file.stdout, expected_stdout),
            ));
        }
        // the pretty-printing run shows the same prints and result after the echo
        let tail: String = lib.prints.iter().map(|p| format!("{p}\n")).collect();
        if !by_pp.stdout.contains(&tail) {
            return Err(Failure::new("stdout-differs", format!("numbat --pretty-print always FILE lacks the printed output {:?}: {:?}\n{desc}", tail, by_pp.stdout)));
        }
    } else if !by_file.stdout.is_empty() {
        return Err(Failure::new(
            "stdout-on-failure",
            format!("numbat FILE: the input fails as a whole, yet stdout has {:?}\n{desc}", by_file.stdout),
        ));
    }
    // -e behaves like a file containing the same lines
    if by_e.stdout != by_file.stdout || by_e.status != by_file.status {
        return Err(Failure::new(
            "e-differs-from-file",
            format!("-e gives status {:?} stdout {:?}; FILE gives status {:?} stdout {:?}\n{desc}", by_e.status, by_e.stdout, by_file.status, by_file.stdout),
        ));
    }
    if normalise_label(&by_e.stderr, &file) != normalise_label(&by_file.stderr, &file) {
        return Err(Failure::new(
            "e-differs-from-file",
            format!("stderr differs beyond the source label:\n-e: {}\nFILE: {}\n{desc}", by_e.stderr, by_file.stderr),
        ));
    }
    st.label(if expect_success { "all-succeed" } else { "fails" });
    if let Some(fl) = fail_line {
        st.label(&format!("fail-at-line:{}", fl.min(5)));
    }
    let has_print = !lib.prints.is_empty() || program.contains("print(");
    if lines.len() >= 2 && has_print && fail_line.map(|l| l > 0).unwrap_or(true) {
        st.nontrivial_with_sample(hash_str(&program), || json!({"program": lines, "exit_status": by_file.status, "stdout": by_file.stdout}));
    }
    Ok(())
}

fn run(cfg: &Cfg) -> Report {
    let mut rep = Report::new(
        cfg,
        "proptest programs of 1-8 generated statements (typed definitions, functions, units, structs, imports, expressions, prints) with, in 55 % of the cases, one failing statement of 13 kinds (parse, resolver, name, type, run time) at a random position. Each program is run with the numbat binary built from /repo's working tree in a sealed environment three ways: as FILE, as `-e line` arguments, and as FILE with `--pretty-print always`. Oracle: exit status 0 iff every input succeeds (1 otherwise, never a panic); on success stdout is exactly the printed lines followed by the final result as computed by the library in process and stderr is empty; on failure stderr carries a diagnostic and stdout none (the failing file prints nothing); `-e` gives the same stdout and status as FILE and the same stderr up to the source label. non-trivial = >= 2 lines with a print and, for failures, the failing line is not the first; distinct = program text",
    );
    if !std::path::Path::new(&cli_path()).exists() {
        rep.infra_errors.push(format!("{} is missing (run.sh builds it)", cli_path()));
        return rep;
    }
    let cases = cfg.tier.pick(30u32, 600u32);
    rep.absorb(run_proptest(
        cfg,
        "cli",
        cases,
        case_strategy,
        |c: &Case| json!({"case": c, "program": render(c).0}),
        check,
    ));
    rep.assume("the CLI is the debug build of numbat-cli from /repo at check time; environment sealed with --no-config --no-init, empty HOME, NO_COLOR, TZ=UTC");
    rep
}

fn replay(_sub: &str, case: &J) -> CheckResult {
    let c: Case = serde_json::from_value(case["case"].clone()).map_err(|e| Failure::new("harness", e.to_string()))?;
    check(&c, &mut Stats::default())
}

//! C01 — accepted programs never go wrong dimensionally at run time.

use super::typedgen::*;
use crate::engine::*;
use crate::refmodel::units::*;
use crate::session::*;
use crate::PropDef;
use numbat::verif_hooks::{VType, VValue};
use proptest::prelude::*;
use serde_json::{Value as J, json};

pub fn def() -> PropDef {
    PropDef {
        id: "C01",
        run,
        replay,
    }
}

/// Run-time errors that depend on values and are documented: allowed for accepted programs.
const VALUE_DEPENDENT: &[&str] = &[
    "DivisionByZero",
    "FactorialOfNegativeNumber",
    "FactorialOfNonInteger",
    "AssertFailed",
    "AssertEq2Failed",
    "AssertEq3Failed",
    "UserError",
    "QuantityError::NonRationalExponent",
    "EmptyList",
    "DateParsingError",
    "UnknownTimezone",
    "DurationOutOfRange",
    "DateTimeOutOfRange",
    "DateFormattingError",
    "InvalidFormatSpecifiers",
    "InvalidTypeForFormatSpecifiers",
    "ChemicalElementNotFound",
];

pub fn vtype_dims(t: &VType) -> Option<DimVec> {
    match t {
        VType::Dim(p) => Some(DimVec::from_pairs(p)),
        _ => None,
    }
}

/// dimension (over base dimensions) of the unit a run-time quantity carries
fn value_dims(cat: &Catalogue, v: &VValue) -> Option<DimVec> {
    match v {
        VValue::Quantity(q) => {
            let (bu, _) = cat.unit_of_factors(&q.factors)?;
            Some(cat.dims_of(&bu))
        }
        _ => None,
    }
}

fn check(program: &Vec<TIns>, st: &mut Stats) -> CheckResult {
    st.eval();
    let cat = prelude_catalogue();
    let mut g = Gen::new(&cat);
    g.allow_known_classes = true;
    let mut stmts: Vec<Stmt> = vec![];
    for ins in program {
        stmts.extend(g.render(ins));
    }
    let source: Vec<String> = stmts.iter().map(|s| s.text.clone()).collect();
    let class = |base: &str| {
        if g.features.inexact_float_exponent {
            format!("{base}:inexact-float-exponent")
        } else if g.features.polymorphic_literal {
            format!("{base}:polymorphic-literal")
        } else {
            base.to_string()
        }
    };
    let mut ctx = prelude();
    let mut completed = true;
    let mut checked_values = 0usize;
    let mut has_user_units = false;
    let mut pending: Vec<(String, DimVec)> = vec![];
    for (i, s) in stmts.iter().enumerate() {
        let o = eval(&mut ctx, &s.text);
        let here = || format!("statement {i}: `{}`\nprogram:\n{}", s.text, source[..=i].join("\n"));
        if let Some((loc, msg)) = &o.panic {
            return Err(Failure::new(format!("panic:{loc}"), format!("panic at {loc}: {msg}; {}", here())));
        }
        if let Some(e) = &o.error {
            if o.budget_exhausted() {
                st.label("stopped-by-step-budget");
                completed = false;
                break;
            }
            match e.stage {
                Stage::Runtime => {
                    if e.kind == "QuantityError::IncompatibleUnits" || !VALUE_DEPENDENT.contains(&e.kind.as_str()) {
                        return Err(Failure::new(
                            class("runtime-unit-error"),
                            format!("an accepted statement failed at run time with {}: {}; {}", e.kind, e.message, here()),
                        ));
                    }
                    st.label(&format!("value-dependent-error:{}", e.kind));
                    completed = false;
                    break;
                }
                _ => {
                    return Err(Failure::new(
                        class("well-dimensioned-statement-rejected"),
                        format!("a statement that is dimensionally consistent by construction was rejected: {:?}/{}: {}; {}", e.stage, e.kind, e.message, here()),
                    ));
                }
            }
        }
        if s.text.starts_with("unit ") {
            has_user_units = true;
        }
        // the checker's type of the statement equals the reference dimension
        if let (Some(want), Some(info)) = (&s.dim, o.stmts.last()) {
            match info.vtype.as_ref().and_then(vtype_dims) {
                Some(got) if &got == want => {}
                other => {
                    return Err(Failure::new(
                        class("inferred-type-differs"),
                        format!("the checker's type is {:?} ({:?}) but dimensional analysis gives {want}; {}", other.map(|d| d.to_string()), info.vtype, here()),
                    ));
                }
            }
        }
        for (name, d) in &s.defines {
            if let Some(d) = d {
                // a redefinition replaces the expectation for that name
                pending.retain(|(n, _)| n != name);
                pending.push((name.clone(), d.clone()));
            }
        }
    }
    // run-time units of everything that was bound
    let cat_now;
    let cat_ref: &Catalogue = if has_user_units {
        cat_now = catalogue_of(&ctx);
        &cat_now
    } else {
        &cat
    };
    for (name, want) in &pending {
        let Some(v) = ctx.verif_raw_global(name) else { continue };
        let got = value_dims(cat_ref, &v);
        if got.as_ref() != Some(want) {
            return Err(Failure::new(
                class("runtime-unit-differs-from-type"),
                format!(
                    "`{name}` has type {want} but its run-time value {:?} carries a unit of dimension {:?}\nprogram:\n{}",
                    v, got.map(|d| d.to_string()), source.join("\n")
                ),
            ));
        }
        checked_values += 1;
    }
    for (name, shape) in &g.shapes {
        let Some(v) = ctx.verif_raw_global(name) else { continue };
        let mismatch = |what: String| {
            Err(Failure::new(
                class("runtime-unit-differs-from-type"),
                format!("{what}\nprogram:\n{}", source.join("\n")),
            ))
        };
        match (shape, &v) {
            (Shape::Struct(fields), VValue::Struct(_, vals)) => {
                for (fname, want) in fields {
                    let Some((_, fv)) = vals.iter().find(|(n, _)| n == fname) else {
                        return mismatch(format!("struct `{name}` has no field {fname}: {v:?}"));
                    };
                    if value_dims(cat_ref, fv).as_ref() != Some(want) {
                        return mismatch(format!("field `{name}.{fname}` has type {want} but holds {fv:?}"));
                    }
                    checked_values += 1;
                }
            }
            (Shape::List(want), VValue::List(items)) => {
                for it in items {
                    if value_dims(cat_ref, it).as_ref() != Some(want) {
                        return mismatch(format!("an element of list `{name}` (element type {want}) is {it:?}"));
                    }
                    checked_values += 1;
                }
            }
            _ => return mismatch(format!("`{name}` has an unexpected shape: {v:?}")),
        }
    }
    st.label_n("quantities-checked", checked_values as u64);
    if g.features.inexact_float_exponent {
        st.label("known-class:inexact-float-exponent-generated");
    }
    if g.features.polymorphic_literal {
        st.label("known-class:polymorphic-literal-generated");
    }
    let f = &g.features;
    if completed && (f.rational_power || f.composite_exponent || f.generic_instantiations >= 2 || f.struct_or_list || f.redefinition) {
        if f.redefinition {
            st.label("global-redefined-at-another-dimension-then-read-in-function");
        }
        if f.rational_power {
            st.label("has-rational-power");
        }
        if f.generic_instantiations >= 2 {
            st.label("generic-at-several-dimensions");
        }
        if f.struct_or_list {
            st.label("struct-or-list-of-quantities");
        }
        st.nontrivial_with_sample(hash_str(&source.join("\n")), || json!({"program": source}));
    }
    Ok(())
}

fn run(cfg: &Cfg) -> Report {
    let mut rep = Report::new(
        cfg,
        "proptest programs of 3-12 TypedGen instructions (each 1-4 statements) that are dimensionally consistent by construction: every expression is generated for a requested dimension vector from literals with prelude units of that dimension (base-unit products or named derived units), variables, + - * /, powers with integer, rational, decimal and composite compile-time exponents in ASCII and Unicode spellings, conditionals, conversions, sqrt/sqr/cbrt/abs/max/min, list functions, user-defined generic functions (annotated and inferred) instantiated at several dimensions, annotated functions, structs, lists, user dimensions with base and derived units, asserts, zeroth powers, exponents that contain `^` themselves, and redefinitions of a global at another dimension followed by a function that reads it. Each statement is evaluated as its own input. Oracle: no statement is rejected; run-time failures are limited to the documented value-dependent kinds, never a unit incompatibility; the checker's type of every definition equals the requested vector; the raw run-time value of every global, struct field and list element carries a unit whose dimension (RefDim over the direct unit definitions) equals that vector. non-trivial = the program has a rational/composite power, a generic function at >= 2 dimensions, or a struct/list of quantities, and ran to the end; distinct = program text",
    );
    let cases = cfg.tier.pick(1500u32, 20000u32);
    rep.absorb(run_proptest(
        cfg,
        "programs",
        cases,
        || proptest::collection::vec(tins_strategy(), 3..12),
        |p: &Vec<TIns>| {
            let cat = prelude_catalogue();
            let mut g = Gen::new(&cat);
            g.allow_known_classes = true;
            let text: Vec<String> = p.iter().flat_map(|i| g.render(i)).map(|s| s.text).collect();
            json!({"program": p, "rendered": text})
        },
        check,
    ));
    rep
}

fn replay(_sub: &str, case: &J) -> CheckResult {
    let p: Vec<TIns> = serde_json::from_value(case["program"].clone()).map_err(|e| Failure::new("harness", e.to_string()))?;
    check(&p, &mut Stats::default())
}

//! libFuzzer target for C10: bytes select whitespace and a token sequence; numbat's parser and
//! the reference parser of the proptest check (`nbv::props::c10`) must agree on accept/reject
//! and on the tree.
#![no_main]
use libfuzzer_sys::fuzz_target;
use std::sync::Once;

static INIT: Once = Once::new();

fuzz_target!(|data: &[u8]| {
    INIT.call_once(nbv::engine::install_panic_hook);
    if let Err(f) = nbv::props::c10::fuzz_bytes(data, &mut nbv::engine::Stats::default()) {
        if nbv::engine::known().matches("C10", &f.signature).is_none() {
            eprintln!("NBV-FUZZ-FAILURE signature={} what={}", f.signature, f.what);
            std::process::abort();
        }
    }
});

//! Session driver: prelude contexts (built once per thread, cloned per case) and structured
//! evaluation outcomes.

use crate::engine::catch;
use numbat::markup::{Formatter, PlainTextFormatter};
use numbat::module_importer::BuiltinModuleImporter;
use numbat::pretty_print::PrettyPrint;
use numbat::resolver::CodeSource;
use numbat::verif_hooks::{self as vh, VType, VValue};
use numbat::{Context, InterpreterResult, InterpreterSettings, NumbatError, RuntimeErrorKind};
use std::cell::RefCell;
use std::sync::{Arc, Mutex};

#[derive(Clone, Debug, PartialEq)]
pub enum Stage {
    Resolver,
    NameResolution,
    TypeCheck,
    Runtime,
}

#[derive(Clone, Debug)]
pub struct ErrInfo {
    pub stage: Stage,
    /// enum variant name, e.g. `DivisionByZero`, `QuantityError::IncompatibleUnits`
    pub kind: String,
    pub message: String,
}

#[derive(Clone, Debug)]
pub struct StmtInfo {
    pub kind: &'static str,
    pub pretty: String,
    pub vtype: Option<VType>,
}

#[derive(Clone, Debug, Default)]
pub struct Outcome {
    pub stmts: Vec<StmtInfo>,
    /// value of the final expression statement (simplified, as displayed), if any
    pub result: Option<VValue>,
    /// displayed text of the result with default format options
    pub result_text: Option<String>,
    pub prints: Vec<String>,
    pub error: Option<ErrInfo>,
    /// (location, message)
    pub panic: Option<(String, String)>,
    /// rendered diagnostics (plain text) if an error occurred
    pub diagnostics: Option<String>,
}

impl Outcome {
    pub fn ok(&self) -> bool {
        self.error.is_none() && self.panic.is_none()
    }
    /// the input was stopped by the harness's step budget (inconclusive, never a finding)
    pub fn budget_exhausted(&self) -> bool {
        self.error.as_ref().map(|e| e.message.contains(numbat::verif_hooks::STEP_BUDGET_MESSAGE)).unwrap_or(false)
    }
    pub fn err_kind(&self) -> Option<&str> {
        self.error.as_ref().map(|e| e.kind.as_str())
    }
    pub fn summary(&self) -> String {
        if let Some((l, m)) = &self.panic {
            return format!("PANIC {l}: {m}");
        }
        if let Some(e) = &self.error {
            return format!("ERR {:?}/{}: {}", e.stage, e.kind, e.message);
        }
        match &self.result_text {
            Some(t) => format!("OK {t}"),
            None => "OK".to_string(),
        }
    }
}

fn variant_name(dbg: &str) -> String {
    dbg.chars()
        .take_while(|c| c.is_alphanumeric() || *c == '_')
        .collect()
}

pub fn runtime_kind(k: &RuntimeErrorKind) -> String {
    match k {
        RuntimeErrorKind::QuantityError(q) => {
            format!("QuantityError::{}", variant_name(&format!("{q:?}")))
        }
        other => variant_name(&format!("{other:?}")),
    }
}

pub fn classify_error(e: &NumbatError) -> ErrInfo {
    match e {
        NumbatError::ResolverError(r) => ErrInfo {
            stage: Stage::Resolver,
            kind: variant_name(&format!("{r:?}")),
            message: r.to_string(),
        },
        NumbatError::NameResolutionError(r) => ErrInfo {
            stage: Stage::NameResolution,
            kind: variant_name(&format!("{r:?}")),
            message: r.to_string(),
        },
        NumbatError::TypeCheckError(r) => ErrInfo {
            stage: Stage::TypeCheck,
            kind: variant_name(&format!("{r:?}")),
            message: r.to_string(),
        },
        NumbatError::RuntimeError(r) => ErrInfo {
            stage: Stage::Runtime,
            kind: runtime_kind(&r.kind),
            message: r.to_string(),
        },
    }
}

pub fn plain(m: &numbat::markup::Markup) -> String {
    PlainTextFormatter.format(m, false).to_string()
}

thread_local! {
    static PRELUDE: RefCell<Option<Context>> = const { RefCell::new(None) };
    static PRELUDE_ALL: RefCell<Option<Context>> = const { RefCell::new(None) };
}

pub fn fresh_context() -> Context {
    Context::use_test_exchange_rates();
    let mut ctx = Context::new(BuiltinModuleImporter::default());
    ctx.load_currency_module_on_demand(false);
    ctx
}

fn build_prelude() -> Context {
    let mut ctx = fresh_context();
    let mut settings = InterpreterSettings {
        print_fn: Box::new(|_| {}),
    };
    ctx.interpret_with_settings(&mut settings, "use prelude", CodeSource::Internal)
        .expect("prelude loads");
    ctx
}

/// A fresh clone of a context with `use prelude` evaluated.
pub fn prelude() -> Context {
    PRELUDE.with(|p| {
        let mut p = p.borrow_mut();
        if p.is_none() {
            *p = Some(build_prelude());
        }
        p.as_ref().unwrap().clone()
    })
}

/// A fresh clone of a context with `use prelude` and `use units::currencies` evaluated.
pub fn prelude_with_currencies() -> Context {
    PRELUDE_ALL.with(|p| {
        let mut p = p.borrow_mut();
        if p.is_none() {
            let mut ctx = build_prelude();
            let mut settings = InterpreterSettings {
                print_fn: Box::new(|_| {}),
            };
            ctx.interpret_with_settings(
                &mut settings,
                "use units::currencies",
                CodeSource::Internal,
            )
            .expect("currencies load");
            *p = Some(ctx);
        }
        p.as_ref().unwrap().clone()
    })
}

pub fn render_diagnostics(ctx: &Context, e: &NumbatError) -> Result<String, (String, String)> {
    use codespan_reporting::term::{self, Config};
    use numbat::diagnostic::ErrorDiagnostic;
    catch(|| {
        let mut buf = termcolor::NoColor::new(Vec::<u8>::new());
        let config = Config::default();
        let diags = match e {
            NumbatError::ResolverError(e) => e.diagnostics(),
            NumbatError::NameResolutionError(e) => e.diagnostics(),
            NumbatError::TypeCheckError(e) => e.diagnostics(),
            NumbatError::RuntimeError(e) => numbat::diagnostic::ResolverDiagnostic {
                resolver: ctx.resolver(),
                error: e,
            }
            .diagnostics(),
        };
        for d in diags {
            term::emit(&mut buf, &config, &ctx.resolver().files, &d).expect("emit diagnostic");
        }
        String::from_utf8_lossy(buf.get_ref()).to_string()
    })
}

/// VM instructions one input may execute (about a second of run time)
pub const STEP_BUDGET: u64 = 30_000_000;

thread_local! {
    /// a smaller budget for checks whose inputs are arbitrary (C08): the worst cost of one VM
    /// instruction (unit conversions in every operation) times the budget must stay far below
    /// the hang thresholds
    static STEP_BUDGET_OVERRIDE: std::cell::Cell<Option<u64>> = const { std::cell::Cell::new(None) };
}

/// Sets (or clears) the step budget used by evaluations on the calling thread.
pub fn set_thread_step_budget(budget: Option<u64>) {
    STEP_BUDGET_OVERRIDE.with(|b| b.set(budget));
}

pub struct EvalOpts {
    pub render_diagnostics: bool,
    pub source: CodeSource,
}

impl Default for EvalOpts {
    fn default() -> Self {
        EvalOpts {
            render_diagnostics: false,
            source: CodeSource::Text,
        }
    }
}

pub fn eval(ctx: &mut Context, code: &str) -> Outcome {
    eval_with(ctx, code, &EvalOpts::default())
}

pub fn eval_with(ctx: &mut Context, code: &str, opts: &EvalOpts) -> Outcome {
    let prints: Arc<Mutex<Vec<String>>> = Arc::new(Mutex::new(vec![]));
    let prints2 = prints.clone();
    let mut settings = InterpreterSettings {
        print_fn: Box::new(move |m| {
            prints2.lock().unwrap().push(plain(m));
        }),
    };
    let mut out = Outcome::default();
    let source = opts.source.clone();
    // bound run time and memory of generated programs (guarded hook in the VM loop)
    vh::set_step_budget(STEP_BUDGET_OVERRIDE.with(|b| b.get()).unwrap_or(STEP_BUDGET));
    let r = catch(|| {
        let res = ctx.interpret_with_settings(&mut settings, code, source);
        match res {
            Ok((stmts, result)) => {
                let infos: Vec<StmtInfo> = stmts
                    .iter()
                    .map(|s| StmtInfo {
                        kind: vh::statement_kind(s),
                        pretty: plain(&s.pretty_print()),
                        vtype: vh::statement_type(s),
                    })
                    .collect();
                let (val, text) = match &result {
                    InterpreterResult::Value(v) => (
                        Some(vh::value(v)),
                        Some(plain(&v.pretty_print())),
                    ),
                    InterpreterResult::Continue => (None, None),
                };
                Ok((infos, val, text))
            }
            Err(e) => Err(*e),
        }
    });
    out.prints = prints.lock().unwrap().clone();
    match r {
        Ok(Ok((infos, val, text))) => {
            out.stmts = infos;
            out.result = val;
            out.result_text = text;
        }
        Ok(Err(e)) => {
            // rendering the message can itself panic (that is then a crash of this input)
            match catch(|| classify_error(&e)) {
                Ok(info) => out.error = Some(info),
                Err(p) => {
                    out.error = Some(ErrInfo {
                        stage: Stage::Runtime,
                        kind: "unrenderable".into(),
                        message: String::new(),
                    });
                    out.panic = Some(p);
                }
            }
            if opts.render_diagnostics {
                match render_diagnostics(ctx, &e) {
                    Ok(s) => out.diagnostics = Some(s),
                    Err(p) => out.panic = Some(p),
                }
            }
        }
        Err(p) => out.panic = Some(p),
    }
    out
}

/// Parse a displayed number such as `1_234.5`, `1.2e-7`, `inf`, `-NaN` back into an f64.
pub fn parse_displayed_number(s: &str) -> Option<f64> {
    let t: String = s.chars().filter(|c| *c != '_').collect();
    let t = t.trim();
    match t {
        "inf" => return Some(f64::INFINITY),
        "-inf" => return Some(f64::NEG_INFINITY),
        "NaN" | "-NaN" => return Some(f64::NAN),
        _ => {}
    }
    t.parse::<f64>().ok()
}

/// Split a displayed quantity such as `1_234.5 km`, `60″`, `-inf m/s`, `1.2e-7` into the
/// number and the unit text: the longest leading part that reads as a number.
pub fn split_displayed_quantity(text: &str) -> Option<(f64, String)> {
    let t = text.trim();
    let mut ends: Vec<usize> = t.char_indices().map(|(i, _)| i).skip(1).collect();
    ends.push(t.len());
    for end in ends.into_iter().rev() {
        let head = t[..end].trim();
        if head.is_empty() {
            continue;
        }
        if let Some(n) = parse_displayed_number(head) {
            // do not split inside a number ("12" of "123")
            let rest = &t[end..];
            if rest.chars().next().map(|c| c.is_ascii_digit() || c == '.').unwrap_or(false) {
                continue;
            }
            return Some((n, rest.trim().to_string()));
        }
    }
    None
}

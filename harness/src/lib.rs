//! Library half of the `nbv` harness: everything except the command line lives here so that
//! the libFuzzer targets in /verif/fuzz can reuse the oracles of the proptest checks.
#![allow(dead_code, unused_must_use)]
pub mod engine;
pub mod gen_util;
pub mod props;
pub mod refmodel;
pub mod session;

use serde_json::Value as J;

pub struct PropDef {
    pub id: &'static str,
    pub run: fn(&engine::Cfg) -> engine::Report,
    pub replay: fn(&str, &J) -> engine::CheckResult,
}
